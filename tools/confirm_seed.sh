#!/bin/sh
# confirm a seeded change in its scratch worktree: demo passes without it, fails with it, test suite unchanged
# usage: confirm_seed.sh <worktree> <seed-name> <property-id>
WT="$1"; NAME="$2"; PID="$3"
OUT=/verif/seeded/$NAME
mkdir -p "$OUT"
cd "$WT" || exit 2
DEMO=$(ls demo_*.py | head -1)
cp patch.diff "$OUT/patch.diff"; cp "$DEMO" "$OUT/$DEMO"; cp NOTES.md "$OUT/NOTES.md" 2>/dev/null
git checkout -q -- sqllineage
/venv/bin/python "$DEMO" >/dev/null 2>&1; R0=$?
git apply patch.diff || { echo "patch does not apply"; exit 2; }
/venv/bin/python "$DEMO" >/dev/null 2>&1; R1=$?
SUMMARY=$(/venv/bin/python -m pytest -q -p no:cacheprovider --timeout=900 -x --deselect tests/core/test_drawing.py::test_handler --deselect "tests/sql/column/test_column_select_column_dialect_specific.py::test_tsql_assignment_operator" --deselect tests/sql/table/multiple_statements/test_tmp_table.py::test_create_after_drop --deselect tests/sql/table/test_create.py::test_create_if_not_exist 2>&1 | tail -1)
git checkout -q -- sqllineage
echo "$NAME: demo_without_patch_rc=$R0 demo_with_patch_rc=$R1 pytest: $SUMMARY"
python3 - "$OUT" "$NAME" "$PID" "$R0" "$R1" "$SUMMARY" "$DEMO" <<'PY'
import json,sys
out,name,pid,r0,r1,summary,demo=sys.argv[1:8]
meta={"name":name,"property":pid,"demo":demo,"confirmed":{"demo_rc_without_patch":int(r0),"demo_rc_with_patch":int(r1),"pytest_with_patch_excluding_4_baseline_failures":summary},
      "what_i_ran":["git checkout -- sqllineage; /venv/bin/python %s (expect rc 0)"%demo,"git apply patch.diff; /venv/bin/python %s (expect rc 1)"%demo,"/venv/bin/python -m pytest -q -x (the 4 always-failing baseline tests deselected) with the patch applied (expect 425 passed)"]}
json.dump(meta,open(out+"/meta.json","w"),indent=1)
PY
