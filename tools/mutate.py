#!/usr/bin/env python3
"""
Mutation run: how many small source changes to sqllineage that the project's own test suite does NOT notice are
noticed by the checks?  Not part of any registered check; a measuring tool for DESIGN.md section 6.

  mutate.py gen   N SEED      enumerate single-token mutants of sqllineage/**.py, sample N (stratified by file)
  mutate.py tests             run the pinned suite (minus its 4 standing failures, -x) on every sampled mutant
  mutate.py checks [TIER]     run the mapped quick checks on every mutant the suite let through
  mutate.py report            table

All scratch state lives under /var/tmp/lxmut (worktrees are removed as soon as a mutant is done).
"""
import ast
import json
import os
import random
import subprocess
import sys
from concurrent.futures import ThreadPoolExecutor

REPO = "/repo"
WORK = "/var/tmp/lxmut"
STATE = WORK + "/mutants.json"
PY = "/venv/bin/python"
SKIP = "not test_handler and not test_tsql_assignment_operator and not test_create_after_drop and not test_create_if_not_exist"

FILES = {
    "sqllineage/core/holders.py": ["C03", "C04", "C06", "C13", "C01", "C02"],
    "sqllineage/core/models.py": ["C16", "C06", "C14", "C02", "C01", "C18"],
    "sqllineage/core/analyzer.py": ["C01", "C10"],
    "sqllineage/core/metadata_provider.py": ["C13", "C12", "C04"],
    "sqllineage/core/metadata/dummy.py": ["C13", "C12"],
    "sqllineage/runner.py": ["C05", "C11", "C12", "C10", "C18", "C01", "C04"],
    "sqllineage/config.py": ["C15", "C14"],
    "sqllineage/drawing.py": ["C17", "C18"],
    "sqllineage/io.py": ["C18"],
    "sqllineage/utils/helpers.py": ["C05", "C16", "C01"],
    "sqllineage/utils/entities.py": ["C01", "C02"],
    "sqllineage/core/parser/__init__.py": ["C02", "C01", "C08", "C13"],
    "sqllineage/core/parser/sqlfluff/analyzer.py": ["C01", "C10", "C05", "C09"],
    "sqllineage/core/parser/sqlfluff/models.py": ["C02", "C01", "C16", "C08"],
    "sqllineage/core/parser/sqlfluff/utils.py": ["C01", "C02", "C08", "C09"],
    "sqllineage/core/parser/sqlfluff/extractors/base.py": ["C01", "C02", "C08", "C09"],
    "sqllineage/core/parser/sqlfluff/extractors/select.py": ["C01", "C02", "C08", "C09"],
    "sqllineage/core/parser/sqlfluff/extractors/create_insert.py": ["C01", "C02", "C13", "C04"],
    "sqllineage/core/parser/sqlfluff/extractors/cte.py": ["C01", "C02", "C08"],
    "sqllineage/core/parser/sqlfluff/extractors/merge.py": ["C01", "C02", "C10"],
    "sqllineage/core/parser/sqlfluff/extractors/update.py": ["C01", "C02"],
    "sqllineage/core/parser/sqlfluff/extractors/copy.py": ["C01"],
    "sqllineage/core/parser/sqlfluff/extractors/rename.py": ["C03", "C10"],
    "sqllineage/core/parser/sqlfluff/extractors/drop.py": ["C03"],
    "sqllineage/core/parser/sqlfluff/extractors/noop.py": ["C01", "C10"],
    "sqllineage/core/parser/sqlparse/analyzer.py": ["C09", "C14"],
    "sqllineage/core/parser/sqlparse/models.py": ["C09", "C14"],
    "sqllineage/core/parser/sqlparse/utils.py": ["C09"],
    "sqllineage/core/parser/sqlparse/handlers/source.py": ["C09"],
    "sqllineage/core/parser/sqlparse/handlers/target.py": ["C09"],
}

CMP = {ast.Eq: "!=", ast.NotEq: "==", ast.In: "not in", ast.NotIn: "in", ast.Is: "is not", ast.IsNot: "is",
       ast.Lt: "<=", ast.LtE: "<", ast.Gt: ">=", ast.GtE: ">"}


def mutants_of(rel):
    src = open(os.path.join(REPO, rel)).read()
    lines = src.split("\n")
    tree = ast.parse(src)
    out = []

    def seg(l1, c1, l2, c2):
        return l1 == l2 and (l1, c1, c2)

    def add(kind, line, c1, c2, new):
        old = lines[line - 1][c1:c2]
        if old.strip() == new.strip():
            return
        out.append({"file": rel, "kind": kind, "line": line, "c1": c1, "c2": c2, "old": old, "new": new})

    doc_lines = set()
    for n in ast.walk(tree):
        if isinstance(n, (ast.FunctionDef, ast.ClassDef, ast.Module)) and n.body and isinstance(n.body[0], ast.Expr) \
                and isinstance(getattr(n.body[0], "value", None), ast.Constant) and isinstance(n.body[0].value.value, str):
            doc_lines.update(range(n.body[0].lineno, n.body[0].end_lineno + 1))
    for n in ast.walk(tree):
        if getattr(n, "lineno", None) in doc_lines:
            continue
        if isinstance(n, ast.Compare) and len(n.ops) == 1:
            a, b = n.left, n.comparators[0]
            if a.end_lineno == b.lineno and type(n.ops[0]) in CMP:
                add("cmp", a.end_lineno, a.end_col_offset, b.col_offset, " %s " % CMP[type(n.ops[0])])
        elif isinstance(n, ast.BoolOp):
            for a, b in zip(n.values, n.values[1:]):
                if a.end_lineno == b.lineno:
                    txt = lines[a.end_lineno - 1][a.end_col_offset:b.col_offset]
                    if txt.strip() in ("and", "or"):
                        add("bool", a.end_lineno, a.end_col_offset, b.col_offset,
                            " or " if txt.strip() == "and" else " and ")
        elif isinstance(n, ast.UnaryOp) and isinstance(n.op, ast.Not) and n.lineno == n.operand.lineno:
            add("not", n.lineno, n.col_offset, n.operand.col_offset, "")
        elif isinstance(n, ast.If) and n.test.lineno == n.test.end_lineno and not isinstance(n.test, ast.Constant):
            add("if-true", n.test.lineno, n.test.col_offset, n.test.end_col_offset, "True")
            add("if-false", n.test.lineno, n.test.col_offset, n.test.end_col_offset, "False")
        elif isinstance(n, ast.Expr) and isinstance(n.value, ast.Call) and n.lineno == n.end_lineno:
            add("drop-call", n.lineno, n.col_offset, n.end_col_offset, "pass")
        elif isinstance(n, ast.Continue):
            add("continue-pass", n.lineno, n.col_offset, n.end_col_offset, "pass")
        elif isinstance(n, ast.Break):
            add("break-pass", n.lineno, n.col_offset, n.end_col_offset, "pass")
        elif isinstance(n, ast.Subscript) and isinstance(n.slice, ast.Constant) and n.slice.value in (0, -1) \
                and n.slice.lineno == n.slice.end_lineno:
            add("index", n.slice.lineno, n.slice.col_offset, n.slice.end_col_offset, "-1" if n.slice.value == 0 else "0")
        elif isinstance(n, ast.Constant) and isinstance(n.value, bool) and n.lineno == n.end_lineno:
            add("bool-const", n.lineno, n.col_offset, n.end_col_offset, str(not n.value))
        elif isinstance(n, ast.IfExp) and n.body.end_lineno == n.orelse.lineno == n.lineno and n.test.lineno == n.lineno:
            add("ifexp-not", n.test.lineno, n.test.col_offset, n.test.end_col_offset,
                "(not (%s))" % lines[n.test.lineno - 1][n.test.col_offset:n.test.end_col_offset])
        elif isinstance(n, ast.keyword) and n.arg and isinstance(n.value, ast.Constant) and n.value.value is True:
            pass
    return out


def apply(root, m):
    p = os.path.join(root, m["file"])
    lines = open(p).read().split("\n")
    ln = lines[m["line"] - 1]
    assert ln[m["c1"]:m["c2"]] == m["old"], (ln, m)
    lines[m["line"] - 1] = ln[:m["c1"]] + m["new"] + ln[m["c2"]:]
    open(p, "w").write("\n".join(lines))


def load():
    return json.load(open(STATE))


def save(ms):
    tmp = STATE + ".tmp"
    json.dump(ms, open(tmp, "w"), indent=1)
    os.replace(tmp, STATE)


def worktree(i):
    root = "%s/w%d" % (WORK, i)
    subprocess.run(["git", "-C", REPO, "worktree", "remove", "--force", root], capture_output=True)
    subprocess.run(["git", "-C", REPO, "worktree", "add", "-q", "--detach", root, "HEAD"], check=True, capture_output=True)
    return root


def drop(root):
    subprocess.run(["git", "-C", REPO, "worktree", "remove", "--force", root], capture_output=True)


def cmd_gen(n, seed):
    os.makedirs(WORK, exist_ok=True)
    rnd = random.Random(seed)
    per = {}
    for f in FILES:
        if os.path.exists(os.path.join(REPO, f)):
            per[f] = mutants_of(f)
    total = sum(len(v) for v in per.values())
    pick = []
    for f, ms in per.items():
        k = max(2, round(n * len(ms) / total))
        pick += rnd.sample(ms, min(k, len(ms)))
    for i, m in enumerate(pick):
        m["id"] = i
    save(pick)
    print("candidates=%d sampled=%d files=%d" % (total, len(pick), len(per)))


def one_test(m):
    if "suite" in m:
        return m
    root = worktree(m["id"])
    try:
        apply(root, m)
        try:
            subprocess.run([PY, "-c", "import ast,sys;ast.parse(open(sys.argv[1]).read())", os.path.join(root, m["file"])],
                           check=True, capture_output=True)
        except subprocess.CalledProcessError:
            m["suite"] = "syntax"
            return m
        r = subprocess.run([PY, "-m", "pytest", "-x", "-q", "-p", "no:cacheprovider", "--timeout=300", "-k", SKIP],
                           cwd=root, capture_output=True, text=True,
                           env=dict(os.environ, PYTHONDONTWRITEBYTECODE="1"))
        m["suite"] = "survived" if r.returncode == 0 else "killed"
        if r.returncode != 0:
            tail = [x for x in r.stdout.splitlines() if x.startswith("FAILED") or x.startswith("ERROR")]
            m["suite_by"] = tail[0][:160] if tail else r.stdout[-160:]
    finally:
        drop(root)
    return m


def cmd_tests(par=14):
    ms = load()
    with ThreadPoolExecutor(par) as ex:
        for k, m in enumerate(ex.map(one_test, ms)):
            if k % 10 == 9:
                save(ms)
    save(ms)
    print({s: sum(1 for m in ms if m.get("suite") == s) for s in ("survived", "killed", "syntax")})


def cmd_checks(tier="quick", only=None):
    ms = load()
    for m in ms:
        if m.get("suite") != "survived" or "checks" in m:
            continue
        if only is not None and m["id"] not in only:
            continue
        root = worktree(m["id"])
        res = {}
        try:
            apply(root, m)
            for pid in FILES[m["file"]]:
                r = subprocess.run(["/verif/vcheck", pid, "--tier", tier], capture_output=True, text=True,
                                   env=dict(os.environ, LX_REPO=root, LX_NO_EVIDENCE="1"))
                v = [x for x in r.stdout.splitlines() if x.startswith("VIOLATION")]
                res[pid] = {"rc": r.returncode, "violations": len(v),
                            "first": (v[0][:200] if v else
                                      next((x[:200] for x in r.stdout.splitlines() if x.startswith("HARNESS")), ""))}
                if r.returncode == 1:
                    break
        finally:
            drop(root)
        m["checks"] = res
        m["caught_by"] = [p for p, x in res.items() if x["rc"] == 1]
        m["harness"] = [p for p, x in res.items() if x["rc"] not in (0, 1)]
        save(ms)
        print("mutant %d %s:%d %s %r->%r caught_by=%s harness=%s" % (
            m["id"], m["file"], m["line"], m["kind"], m["old"], m["new"], m["caught_by"], m["harness"]), flush=True)


def cmd_report():
    ms = load()
    sv = [m for m in ms if m.get("suite") == "survived"]
    done = [m for m in sv if "checks" in m]
    print("sampled %d; suite killed %d; syntax %d; suite survived %d; checked %d; caught %d; harness-only %d; uncaught %d" % (
        len(ms), sum(m.get("suite") == "killed" for m in ms), sum(m.get("suite") == "syntax" for m in ms), len(sv),
        len(done), sum(bool(m["caught_by"]) for m in done),
        sum((not m["caught_by"]) and bool(m["harness"]) for m in done),
        sum((not m["caught_by"]) and not m["harness"] for m in done)))
    for m in done:
        tag = "CAUGHT " + ",".join(m["caught_by"]) if m["caught_by"] else ("HARNESS " + ",".join(m["harness"]) if m["harness"] else "uncaught")
        print("%3d %-58s %4d %-13s %-28r -> %-14r %s%s" % (m["id"], m["file"], m["line"], m["kind"], m["old"][:28], m["new"][:14], tag,
                                                      ("  # " + m["triage"]) if m.get("triage") else ""))


if __name__ == "__main__":
    c = sys.argv[1]
    if c == "gen":
        cmd_gen(int(sys.argv[2]), int(sys.argv[3]))
    elif c == "tests":
        cmd_tests()
    elif c == "checks":
        cmd_checks(sys.argv[2] if len(sys.argv) > 2 else "quick",
                   set(map(int, sys.argv[3].split(","))) if len(sys.argv) > 3 else None)
    elif c == "report":
        cmd_report()
