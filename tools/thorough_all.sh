#!/bin/sh
# run every thorough command once, end to end; one line per check
cd /verif || exit 2
for P in ${PIDS:-C16 C15 C17 C13 C04 C12 C10 C05 C11 C03 C18 C06 C14 C07 C08 C01 C02 C09}; do
  S=$(date +%s)
  VCHECK_TIMEOUT=${TO:-5400} ./vcheck $P --tier thorough > /var/tmp/thorough_$P.log 2>&1; RC=$?
  E=$(date +%s)
  echo "check=$P rc=$RC wall=$((E-S))s $(tail -1 /var/tmp/thorough_$P.log | cut -c1-200)"
  grep -m3 '^VIOLATION\|^HARNESS' /var/tmp/thorough_$P.log | cut -c1-400
done
