#!/bin/sh
# run every kept seeded change against its owning property's quick check (plus any extra checks given as
# "name:Cxx,Cyy" arguments) and record the outcome in seeded/<name>/detected.txt
cd /verif || exit 2
for D in seeded/*/; do
  N=$(basename "$D")
  [ -f "$D/patch.diff" ] || { echo "$N: no patch for the current tree (retired)"; continue; }
  P=$(python3 -c "import json;print(json.load(open('$D/meta.json'))['property'])")
  EXTRA=$(python3 -c "import json;print(' '.join(json.load(open('$D/meta.json')).get('also_run',[])))")
  : > "$D/detected.txt"
  for C in $P $EXTRA; do
    tools/try_seed.sh "$N" "$C" | grep '^seed=' >> "$D/detected.txt"
  done
  cat "$D/detected.txt"
done
