#!/bin/sh
# apply a seeded change to /repo, run the given checks (quick tier), undo it straight afterwards
# usage: try_seed.sh <seed-name> <pid> [<pid> ...]
NAME="$1"; shift
cd /repo || exit 2
git diff --quiet || { echo "/repo has local changes; refusing"; exit 2; }
git apply /verif/seeded/$NAME/patch.diff || { echo "patch does not apply"; exit 2; }
for P in "$@"; do
  /verif/vcheck $P --tier ${TIER:-quick} > /tmp/try_$NAME_$P.log 2>&1; RC=$?
  echo "seed=$NAME check=$P rc=$RC $(grep -c '^VIOLATION' /tmp/try_$NAME_$P.log) violation line(s); $(grep -c '^HARNESS' /tmp/try_$NAME_$P.log) harness line(s)"
  grep -m2 '^VIOLATION\|^HARNESS' /tmp/try_$NAME_$P.log | cut -c1-400
done
git -C /repo checkout -- .
