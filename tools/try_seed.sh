#!/bin/sh
# run checks (quick tier) against a seeded change and undo it straight afterwards.
# default: a scratch worktree of /repo under /var/tmp with the patch applied, checks pointed at it through LX_REPO
#          (so that /repo itself stays clean and other runs are not disturbed);
# APPLY_IN_REPO=1: the literal procedure - git -C /repo apply, run, git -C /repo checkout -- .
# usage: try_seed.sh <seed-name> <pid> [<pid> ...]
NAME="$1"; shift
PATCH=/verif/seeded/$NAME/patch.diff
[ -f "$PATCH" ] || { echo "seed=$NAME has no patch for the current tree"; exit 2; }
if [ -n "$APPLY_IN_REPO" ]; then
  cd /repo || exit 2
  git diff --quiet || { echo "/repo has local changes; refusing"; exit 2; }
  git apply "$PATCH" || { echo "patch does not apply"; exit 2; }
  ROOT=/repo
else
  ROOT=/var/tmp/lxseed-$NAME-$$
  git -C /repo worktree add -q --detach "$ROOT" HEAD || exit 2
  git -C "$ROOT" apply "$PATCH" || { echo "patch does not apply"; git -C /repo worktree remove --force "$ROOT"; exit 2; }
fi
for P in "$@"; do
  LOG=/var/tmp/try_${NAME}_$P.log
  LX_REPO=$ROOT /verif/vcheck $P --tier ${TIER:-quick} ${ONLY:+--only $ONLY} > $LOG 2>&1; RC=$?
  echo "seed=$NAME check=$P rc=$RC $(grep -c '^VIOLATION' $LOG) violation line(s); $(grep -c '^HARNESS' $LOG) harness line(s)"
  grep -a -m2 "^VIOLATION\|^HARNESS" $LOG | cut -c1-300
  rm -f $LOG
done
if [ -n "$APPLY_IN_REPO" ]; then git -C /repo checkout -- .; else git -C /repo worktree remove --force "$ROOT"; fi
