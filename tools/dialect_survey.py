#!/usr/bin/env python3
"""survey: every corpus template with distinct concrete names under every dialect vs ansi (real library)"""
import os, sys, json, collections
sys.path.insert(0, "/verif")
os.environ.setdefault("PYTHONHASHSEED", "0")
import warnings; warnings.simplefilter("ignore")
from lx import hook; hook.install()
from lx.tree import PLACEHOLDER
from lx import replay as R
from checks import corpus, gen
from checks.c09 import ALL_DIALECTS
tpl = corpus.build("quick", 0)
diff = collections.defaultdict(list); rej = collections.Counter()
for key, st in tpl:
    sql = gen.Renderer().stmt(st)
    slots = sorted(set(m.lower() for m in PLACEHOLDER.findall(sql)))
    conc = {s: "n" + s[2:] for s in slots}
    csql = PLACEHOLDER.sub(lambda m: conc[m.group(1).lower()], sql)
    r0 = R.run_real(csql, "ansi")
    for d in ALL_DIALECTS + ["non-validating"]:
        r = R.run_real(csql, d)
        if not r.get("ok"):
            rej[d] += 1; continue
        fields = ("sources","targets","intermediates","pairs") if d != "non-validating" else ("sources","targets","intermediates")
        if not R.same_dump(r, r0, fields):
            diff[d].append((key, csql, {k: r[k] for k in fields if r[k] != r0[k]}))
print("rejected:", dict(rej))
for d, xs in diff.items():
    print("==", d, len(xs))
    for k, s, x in xs[:6]: print("   ", k, "|", s[:110], "|", json.dumps(x)[:200])
R.close_all()
