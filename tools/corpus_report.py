#!/usr/bin/env python3
"""oracle validation: every template with pairwise distinct lower-case names through the real library and the oracle"""
import os, sys, json, collections
os.environ.setdefault("PYTHONHASHSEED", "0")
sys.path.insert(0, "/verif")
import warnings; warnings.simplefilter("ignore")
from lx import hook
hook.install()
from lx.engine import Engine, SymStr
from lx.tree import Names, PLACEHOLDER
from lx import replay as R
from checks import corpus, gen

tier = sys.argv[1] if len(sys.argv) > 1 else "quick"
only = sys.argv[2] if len(sys.argv) > 2 else None
dialect = sys.argv[3] if len(sys.argv) > 3 else "ansi"
tpl = corpus.build(tier, 0)
print(len(tpl), "templates")
bad = collections.Counter()
for key, st in tpl:
    if only and only not in key: continue
    sql = gen.Renderer().stmt(st)
    slots = sorted(set(m.lower() for m in PLACEHOLDER.findall(sql)))
    conc = {s: "n" + s[2:] for s in slots}   # zqt1 -> nt1
    csql = PLACEHOLDER.sub(lambda m: conc[m.group(1).lower()], sql)
    rr = R.run_real(csql, dialect)
    res = {}
    def body():
        n = Names()
        for s in slots: n.set(s, conc[s])
        o = gen.Oracle(n)
        res["e"] = o.stmt(st)
        return True
    Engine().explore(body)
    e = res["e"]
    exp = {"sources": sorted(str.__str__(x.plain()) for x in e["sources"]), "targets": sorted(x.plain() for x in e["targets"]),
           "pairs": sorted([a.plain(), b.plain()] for a, b in e["pairs"])}
    if not rr.get("ok"):
        print("ERR ", key, "|", csql, "|", rr.get("error"), (rr.get("message") or "")[:150].replace("\n", " ")); bad["err"] += 1; continue
    got = {"sources": rr["sources"], "targets": rr["targets"], "pairs": rr["pairs"]}
    # pairs whose target name is an expression text are not compared
    if got != exp:
        print("DIFF", key, "|", csql)
        for k in exp:
            if got[k] != exp[k]: print("     ", k, "real:", got[k], "\n     ", " " * len(k), "orcl:", exp[k])
        bad["diff"] += 1
print(dict(bad))
R.close_all()
