#!/usr/bin/env python3
"""regenerates /verif/MANIFEST.json from the table below (kept valid at all times)"""
import json
import os

HERE = os.path.dirname(os.path.dirname(os.path.abspath(__file__)))
TECH = ("solver-based checking of the real code: lifted (symbolic) execution of /repo's current sqllineage source over "
        "symbolic names with z3 (QF_BV), one query per branch, every counterexample replayed on the unmodified library")
TRUST = ("z3 4.x/5.x qfbv tactic; CPython; the SymStr string model (self-tested against str on every witness); "
         "sqlfluff/sqlparse produce for any naming inside the alphabet the tree they produced for the placeholders "
         "(re-checked on every replayed witness); hash() modelled collision-free")

CLAIMED = {
    # pid: (level text, level_note, design_ref, thorough available)
}

NOT_APPLICABLE = {}


def claim(pid, text, note, ref):
    CLAIMED[pid] = (text, note, ref)


claim("C16",
      "For every syntactic position x quote style x dialect instance, z3 decides over ALL identifier spellings inside the bound "
      "(bodies of 1-3 chars over mixed-case letters, '_' and digits) that the printed entity equals the property's normalisation; "
      "kernels decide last-dot split, part limit and eq=>hash-eq on the model classes. Every path's witness is replayed on the "
      "unmodified library. Bounded: nothing is claimed outside the alphabet/length/position list.",
      TRUST + "; two recorded findings (quoted mixed-case column read as source, quoted mixed-case schema) are reported as KNOWN-FINDING",
      "DESIGN.md section 4 (C16)")

claim("C15",
      "Simulation proof by one inductive step on the real _SQLLineageConfigLoader object: from an ARBITRARY abstract state "
      "(acting thread + one arbitrary other thread, symbolic ids, symbolic override values, symbolic environment) one arbitrary "
      "operation (override call with any ordered sub-list of keys, with/without an unknown key; enter; exit; exit by exception; "
      "read; direct assignment) must raise iff the specification rejects it, leave the object in the state related to the "
      "specification's post-state and make every thread's later reads equal the specification's. One step covers histories of "
      "any length, every operation-level interleaving and thread-id reuse. Cross-checked by bounded sequences from the initial "
      "state (3 ops quick / 4 thorough, 2 threads, id reuse) and coercion obligations per key. Counterexamples are replayed with "
      "real threads on the unmodified module-level SQLLineageConfig, every thread reading every key under the witness environment and under alternative environment values, pending threads entering their scope first.",
      TRUST + "; single dict/set operations atomic under the GIL; ids of live threads distinct; behaviour of a thread between its "
      "override call and scope entry other than entering is unspecified. Two defects found by this check were repaired in /repo "
      "(fix: commit, see known_findings.json).",
      "DESIGN.md section 4 (C15)")

claim("C17",
      "The real SQLLineageApp.__call__ and its routes run on a symbolic request path (k<=4 quick, + seeded k=5 thorough "
      "segments of 0..3 chars over {. q z _}, relative / absolute / double-slash spelling, symbolic root name) and on requests carrying BOTH path parameters (d and f, 2+2 segments quick, 2+3 / 3+2 thorough, either key order); pathlib, os.path, "
      "open and json are the LxPath model (self-tested against the real modules on 1246 concrete paths per run) in a worst-case "
      "environment; z3 decides for ALL such paths that every path handed to open()/iterdir() lies, after resolving '.' and '..', "
      "inside the static folder (GET) or the root (POST). Every path's witness is replayed on the unmodified app with real pathlib "
      "on a scratch tree with markers outside the root, observing the response body (markers, the directory a 200 answer of /directory names) and the real open/scandir audit events.",
      TRUST + "; POSIX, no symlinks; existence answers are not counted as disclosure; LineageRunner behind /lineage is an inert stub. "
      "The string-prefix defect found by this check was repaired in /repo (fix: commit, see known_findings.json).",
      "DESIGN.md section 4 (C17)")

claim("C03",
      "The real SQLLineageHolder.of and role predicates run on histories built with the public holder API over tables with "
      "SYMBOLIC names from the 3-table universe; per sequence of statement shapes z3 enumerates every equality pattern of the "
      "names (every read-set / write / drop / rename instance) and the roles must equal the property's definition evaluated on "
      "the same symbolic names; since the definition is a function of the statement set, order/repetition independence follows. "
      "DROP and RENAME are step obligations as worded. Bounded: length <=2 exhaustive (read sets <=3), length 3 with read sets "
      "<=2 (seeded sixth in quick, all in thorough), seeded length 4 in thorough. Witnesses are rendered to SQL and replayed "
      "through LineageRunner on the unmodified library.",
      TRUST + "; RENAME outside the property's precondition only has to make the old name disappear; multi-pair RENAME is C11's",
      "DESIGN.md section 4 (C03)")

claim("C08",
      "Per corpus statement (kind x FROM shape x query form, nesting <=2; thorough: seeded depth-4 compositions, 3-char and mixed "
      "length vectors, 5 more dialects) one run of the real LineageRunner with ALL statement-local names (aliases, derived aliases, CTE "
      "names) and a budget of base names FREE (no distinctness beyond SQL validity) is compared with the twin run whose local names are "
      "fresh constants; z3 decides over all namings that sources, targets, intermediates and end-to-end column pairs are equal; "
      "a second family flips the optional AS. Counterexamples (a naming) are rendered to two SQL texts and replayed on the unmodified "
      "library. Bounded: <=5 (quick) / <=6 (thorough) free names per instance, 2-char bodies (quick).",
      TRUST + "; parser boundary stubbed (split, sqlfluff parse); one open finding (cross-scope alias capture) reported as KNOWN-FINDING; "
      "three defects found here were repaired in /repo (alias precedence, mixed comma join, subquery joins leaking into the outer scope)",
      "DESIGN.md section 4 (C08)")

claim("C01",
      "Per corpus statement x dialect the real LineageRunner runs on the symbolised parse tree with table, schema, alias, derived-alias "
      "and CTE names FREE and its source/target tables are compared with a reference semantics (SQL scoping on a typed AST) evaluated "
      "on the same symbolic names; z3 decides per feasible path (an equivalence class of namings) that they are equal, so statement-local "
      "names never surface as tables unless they coincide with one, CTE shadowing included; plus 31 dialect-specific statement kinds with hand-written expectations (COPY, SELECT INTO, INSERT OVERWRITE [DIRECTORY], file sources, LIKE/CLONE, EXCHANGE/SWAP PARTITION, recursive CTEs, no-data kinds). Bounded-exhaustive over kind x 28 FROM shapes "
      "x query forms x nesting <=2 (thorough: seeded depth 4, 3-char and mixed lengths, 6 more dialects). Witnesses replayed on the "
      "unmodified library (three-way: real / lifted / oracle).",
      TRUST + "; parser boundary stubbed; shapes outside the generator grammar are not seen; the oracle is a second implementation "
      "(validated: it agrees with the real library on every template with pairwise-distinct names). Three defects found here "
      "were repaired in /repo (mixed comma join; scalar subquery in select list / HAVING; file paths lower-cased).",
      "DESIGN.md section 3 and 4 (C01)")
claim("C02",
      "Same harness as C01 comparing (source column -> target column) pairs with the oracle's dataflow, in two families: table-ish names "
      "free (qualifier/alias/scope resolution under coincidences) and column names + column aliases free (naming by list/alias/own name, "
      "resolution through derived tables and CTEs by name, positional mapping through set operations, 16 expression forms); a third family frees the statement-local names first, a fourth double-quotes every base table (case kept, un-aliased quoted tables as qualifiers). "
      "Bounded as C01; <=5/6 free names per instance.",
      TRUST + "; two open findings reported as KNOWN-FINDING (cross-scope alias capture, literal in first UNION branch); three defects found here were repaired in /repo "
      "(one-node paths of CREATE TABLE, quoted source column folded, default alias of a quoted table folded); un-aliased expression display names are not compared; self-insert assumed away for pairs",
      "DESIGN.md section 3 and 4 (C02)")

claim("C14",
      "Twin templates per corpus statement: analysed under default schema S (scoped override of the real SQLLineageConfig, the stubbed "
      "environment, the environment while ANOTHER key is overridden in scope, or a scoped override over a different environment value) versus the statement with every unqualified table written S.name; S and up to 4 other names are free, so S may equal "
      "a qualifier already present; z3 decides over all namings that tables, column pairs and exported node ids (both levels) are equal. "
      "The same twin runs under the legacy sqlparse analyzer (its table factory is separate code). Counterexamples replayed on the "
      "unmodified library with the real config mechanism.",
      TRUST + "; parser boundary stubbed; statements with a scalar subquery as select item are excluded (library re-enters on text)",
      "DESIGN.md section 4 (C14)")

claim("C13",
      "The real LineageRunner with and without the dict-backed provider whose column lists are SYMBOLIC and whose knowledge of each table "
      "is a free bit: 18 templates (SELECT * single/join/qualified/derived/CTE, unqualified column over joins incl. free schema+table names, "
      "INSERT positions from target metadata, explicit list with FREE listed names - permutation of / overlap with / longer or shorter than the known columns, over a union and a CTE -, CTAS, unknown tables) + a seeded share of the corpus under an unrelated "
      "provider; z3 decides over all column namings (overlap patterns are its case split) that table lineage is unchanged and the pairs equal "
      "the refinement contract. Witnesses replayed on the unmodified library with the concrete metadata dict.",
      TRUST + "; parser boundary stubbed; SQLAlchemy provider only through the shared base-class path; four open findings reported as "
      "KNOWN-FINDING (star over join with overlapping column, star over join with partial knowledge, star "
      "through CTE, star into a known target paired by name); one defect found here was repaired in /repo (explicit column list merged with the target's metadata columns)",
      "DESIGN.md section 4 (C13)")

claim("C04",
      "The real LineageRunner on 2-4 statement scripts (12 chain shapes + 10 session-metadata scripts incl. wildcard chains and a table defined twice); the intermediate tables' names at "
      "the write site and at the read site are INDEPENDENT free names and the column names are free, so 'reads what was written' and 'consumes "
      "what was produced' are solver case splits; expected = relational composition (roots-to-leaves reachability) of the per-statement oracle "
      "dataflows computed on the same symbolic names, table roles per C03's definition; with a provider, SELECT * / unqualified columns / "
      "positional INSERT use what the session learned, also against a stale catalog entry. Witnesses replayed on the unmodified library.",
      TRUST + "; parser boundary stubbed; one open finding (same unresolved column name merged across statements) reported as KNOWN-FINDING",
      "DESIGN.md section 4 (C04)")

claim("C18",
      "On every lifted result of the corpus statements, the C04 chain scripts, 5 role-overlap scripts (all table names free: the chain's intermediate table may also be read by a bare SELECT or created on its own) and 4 path-owning dialect statements, at both export levels and "
      "with names FREE: exported node ids pairwise distinct AS FORMULAS (two distinct nodes printing the same name is searched over all "
      "namings), every edge endpoint and parent reference is an exported id, exported nodes/edges correspond one to one to the graph's, the "
      "text summary lists each source/target/intermediate once in sorted order. The same checker function runs on the unmodified library's "
      "concrete output for every replayed witness.",
      TRUST + "; graph read through runner._sql_holder; one open finding (duplicate ids for distinct nodes printing the same name) reported as KNOWN-FINDING",
      "DESIGN.md section 4 (C18)")
claim("C06",
      "On every lifted result of the corpus statements, the C04 chain scripts, 5 role-overlap scripts and 6 dialect-specific statements (paths, LATERAL VIEW, SELECT "
      "INTO) with names FREE: every reported path is a chain of direct lineage edges with >=1 hop from a column nothing feeds to a column of a "
      "written table; the last column's owner is target/intermediate; every resolved source column's table is source/intermediate and "
      "connected to the target's table in the table graph; every node retrievable by eq/hash; resolved columns have one owner. Same checker "
      "runs concretely on the unmodified library for every replayed witness.",
      TRUST + "; self-insert namings assumed away; one open finding (LATERAL VIEW alias) reported as KNOWN-FINDING; one defect found here was repaired in /repo (one-node paths of CREATE TABLE)",
      "DESIGN.md section 4 (C06)")

claim("C09",
      "Per corpus statement the placeholder text is parsed by the real sqlfluff under ansi and under k other dialects that accept it; all trees "
      "are symbolised with the SAME free names and the real extractors run on each; z3 decides over all namings that sources, targets, "
      "intermediates and column pairs are identical. Quick: one dialect of each of 4 grammar families per statement; thorough: 6 seeded "
      "dialects per statement and all 25 on 40 seeded /plain INSERTs. Legacy leg: the placeholder text is parsed by the real sqlparse, its token tree "
      "symbolised the same way (lx/legacy.py) and the real SqlParseLineageAnalyzer's TABLE lineage compared with the sqlfluff analyzer's "
      "for all namings. Witnesses are replayed on the unmodified library under every dialect / analyzer involved.",
      TRUST + "; nine findings reported as KNOWN-FINDING (exasol CREATE VIEW, clickhouse WHERE subquery, tsql view column list, "
      "UPDATE FROM under tsql/sqlite, tsql MERGE, MERGE INSERT clause under athena/databricks/trino; legacy analyzer: mixed comma join, HAVING subquery, derived table in a parenthesized join); "
      "two defects found here were repaired in /repo (impala CTAS unsupported, CREATE TABLE column definitions differing per dialect)",
      "DESIGN.md section 4 (C09)")

claim("C07",
      "REDUCED SCOPE. case: per corpus statement every letter of every keyword, function name and unquoted identifier gets a free case bit "
      "per occurrence (plus <=4 free lower-case names); z3 decides over all case assignments that tables and named-column pairs equal the "
      "plain run's. quote: twin templates with every table-ish identifier (or only the schema parts of 2/3-part names) quoted in the dialect's "
      "style vs unquoted, lower-case bodies free. layout: minimal rendering vs one noise-saturated rendering (newline + block comment with ';' "
      "+ line comment at every blank; statements with a scalar subquery nested in an expression, which the library re-analyses from its TEXT, always take part). Counterexamples are rendered to two SQL texts and replayed on the unmodified library. NOT claimed: "
      "quantification over WHERE whitespace/comments are inserted - positions change the parse and cannot be solver variables; extra "
      "trailing semicolons are C05's.",
      TRUST + "; tree shape assumed independent of letter case (re-checked per witness)",
      "DESIGN.md section 4 (C07)")

claim("C11",
      "Each of 14 small templates runs twice in one path space: baseline set order vs SYMBOLIC HASH RANKS (a free 8-bit rank per distinct "
      "printed name; every iteration over a builtin set inside sqllineage.* - for, comprehensions, list(), next(iter()), sorted(), "
      "set.pop, itertools.product - follows the ranks), one harness instance per kind of set permuted (tables/subqueries, columns, rest) "
      "and, for small templates, all sets at once; names free as well. z3 decides over all rankings and namings that the canonical dump "
      "(sorted tables, column paths, both exports as sets) is the same. A counterexample (naming + ranking) is rendered to SQL and run on "
      "the unmodified library in fresh processes under PYTHONHASHSEED 0..15 (0..31 thorough, every 8th passing path) and reported only if two seeds disagree. "
      "Accessor family: every ordered pair of the 7 accessors on one runner object vs a fresh runner.",
      TRUST + "; set iteration inside networkx/sqlfluff is not permuted (seed replay only); the list ORDER of the export and its edge "
      "numbering are not compared (they follow insertion order, which follows set order: observed to differ between seeds for every "
      "script, see DESIGN.md); two open findings reported as KNOWN-FINDING (star over join with overlapping metadata column; multi-pair RENAME)",
      "DESIGN.md section 2.7 and 4 (C11)")

claim("C05",
      "REDUCED SCOPE. split kernel: the real helpers.split on a SYMBOLIC list of sqlparse pieces (empty/comment-only, ';'-only, statement "
      "with symbolic text; up to 5): exactly the statements, in order. assembly: the real LineageRunner on scripts of 2-4 statements "
      "(12 kinds incl. a wildcard reader and an unqualified column over a join, ansi/postgres/tsql, table names free so later statements may read earlier targets - metadata-free analysis must not learn from earlier statements) versus SQLLineageHolder.of over "
      "the same statements analysed one by one by fresh runners: equal tables and column pairs, statements() has n entries. tsql "
      "no-semicolon mode through split_tsql and the segment cache, incl. textually equal statements. NOT claimed: where sqlparse/"
      "sqlfluff place the cuts in TEXT (semicolons in literals/comments, ';;', newline-only batches) - regex lexers on concrete text; "
      "met only by the replay of witnesses, which is sampling.",
      TRUST + "; per-statement holders read through runner._stmt_holders",
      "DESIGN.md section 4 (C05)")
claim("C10",
      "REDUCED SCOPE. monitor: the real runner and every accessor on 36 edge-case statements (incl. file sources in writing statements, UPDATE ONLY) and the 31 dialect-specific statement kinds of C01, names free - only SQLLineageException "
      "subclasses may escape. silent: an unsupported statement (4 kinds) at SYMBOLIC position k of a 1-3 statement script, normal vs silent "
      "mode: exception / warning + result equals the script without it, for all names. empty-parse: a statement yielding no segment at "
      "position k. parse kernel: sqlfluff's Linter stubbed by a SYMBOLIC violations list and SYMBOLIC text over templating/formatting/"
      "quoting metacharacters: InvalidSyntaxException iff a lex/parse violation is present, never an internal error. NOT claimed: arbitrary "
      "or mutated TEXT (sqlfluff templater/lexer/parser escape routes such as an unbalanced '{{').",
      TRUST + "; five internal-error escapes found here were repaired in /repo (vertica swap_partitions, MERGE insert values, multi-pair "
      "RENAME NetworkXError / KeyError)",
      "DESIGN.md section 4 (C10)")
claim("C12",
      "REDUCED SCOPE. The real LineageRunner with ONE provider object reused: history of 1-2 runs, each clean or failing at SYMBOLIC statement "
      "position k (unsupported or unparsable statement) or with the provider raising on its j-th lookup, then run B; names free (a table the "
      "history creates may be the table B reads): B equals B on a fresh provider and after every run, however it ended, the provider "
      "answers for the learned tables as a fresh one; default shared provider by leaving the argument unset; a complete run B nested "
      "inside run A's j-th provider lookup (the only points where a run calls out) leaves both unchanged; frame audit: no module-level or class-level "
      "mutable object of sqllineage.* changes across a run in any mode (with/without provider, tsql, T-SQL no-semicolon mode, failing run), repeated on the unmodified library in the replay worker. NOT claimed: real OS-thread interleavings (runs with their own providers "
      "share only SQLLineageConfig, which C15 covers, and import-time constants, which the frame check asserts).",
      TRUST + "; Dummy provider subclass with a fault/nesting counter in the harness",
      "DESIGN.md section 4 (C12)")

# round-4 additions (appended to the claim texts above)
EXTRA = {
    "C03": "Every witness is replayed three ways on the unmodified library: the same history through the holder API, an SQL rendering whose "
           "statements carry column lineage (SELECT *) and one whose statements do not (SELECT 1).",
    "C04": "A write-back chain (a value written back to the table it came from through a helper table, so that a path visits two columns "
           "of one table) is among the chain shapes.",
    "C05": "Split-kernel piece texts agree with their first token (statement pieces start with it, after their comment if any; the rest is free). "
           "T-SQL no-semicolon scripts run in ROOT mode: the repository's own statement listing walks the parse tree of the whole script (line breaks, GO "
           "batch separators and semicolons at chosen positions), the runner being handed the script's own text; statements with identical template "
           "text share one handle and recur after a RENAME / DROP.",
    "C06": "Role scripts with DROP / RENAME among data-moving statements (a table filled from constants only that is dropped later; a renamed "
           "chain member) are included.",
    "C07": "Quote twins of a qualified wildcard next to a second relation (qualifier an alias / a bare table name).",
    "C10": "Statements with more than one write target (SELECT INTO inside a derived table / CTE) and a scalar subquery over a constants-only "
           "derived table are in the monitor. After a library exception every accessor of the SAME runner object is asked again and must stay within the contract; silent mode is "
           "also decided under dialect tsql in TSQL_NO_SEMICOLON mode.",
    "C11": "Builtin sets handed to networkx as node bunches (out_edges(nbunch=...), subgraph, degree) follow the symbolic order too; templates "
           "with two relations of one FROM clause that may share their bare name (un-aliased tables of two schemas, a CTE and a qualified table); "
           "accessor-order scripts with write-only / read-only tables and a self-insert.",
    "C12": "The frame audit covers memoised functions (functools caches), exercises every public accessor, runs statements with un-aliased derived tables (names the library generates itself) and asserts that two "
           "freshly built providers / analyzers (Dummy, SQLAlchemy on sqlite://, sqlfluff, sqlparse) share no mutable attribute object.",
    "C13": "An unqualified column over UN-ALIASED tables of two schemas that may share their bare name; INSERT whose query is parenthesised or starts with WITH (a bracketed child like a column list), CREATE VIEW, and the metadata rules "
           "under further grammars (postgres, redshift, impala, sparksql, snowflake, tsql, mysql) whose statement types differ.",
    "C14": "A fifth mechanism: analysed inside the scoped override, every result (tables, pairs, both exports) read after the scope has ended.",
    "C15": "The environment may also set the bool key of the step proof to a non-default value and the acting thread's stored text may equal the "
           "key's built-in default (an override back to the default still wins over the environment).",
    "C17": "Additional instances configure the SQL directory AT the working directory or at its parent (what `sqllineage -g -f x.sql` sets up), "
           "with '~' in the segment alphabet and os.path.expanduser / Path.expanduser part of the model (HOME is a directory of the scratch "
           "tree outside every root); deep-root instances use a parent directory the segment alphabet can spell.",
    "C18": "Scripts with the textually same derived table under two aliases, a directory path written with and read without a trailing slash, "
           "and DROP / RENAME role scripts are included.",
}
GUARDS = ("Vacuity guards per harness instance: at least one path must reach the property assertion, and a sensitivity twin (the same harness "
          "with the implementation's first observation perturbed the way a wrong implementation would be) must come back 'violated'; "
          "either failing is a harness error (exit 3), counted in evidence as sensitivity_twins.")
for _pid in list(CLAIMED):
    _t, _n, _r = CLAIMED[_pid]
    CLAIMED[_pid] = ((_t + " " + EXTRA[_pid]) if _pid in EXTRA else _t, _n + "; " + GUARDS, _r)

ALL = ["C%02d" % i for i in range(1, 19)]


def main():
    checks = []
    for pid in ALL:
        if pid not in CLAIMED:
            continue
        text, note, ref = CLAIMED[pid]
        checks.append({
            "property_id": pid,
            "quick_cmd": "./vcheck %s --tier quick" % pid,
            "thorough_cmd": "./vcheck %s --tier thorough" % pid,
            "evidence_file": "/verif/evidence/%s.json" % pid,
            "replay_cmd_template": "./vcheck %s --replay {path}" % pid,
            "engine": "lx",
            "level_claimed": {"category": "model_checking", "text": text, "design_ref": ref},
            "level_note": note,
            "technique": TECH,
        })
    na = []
    for pid in ALL:
        if pid in CLAIMED:
            continue
        na.append({"property_id": pid, "reason": NOT_APPLICABLE.get(
            pid, "check not built yet (work in progress; it will be claimed once its check runs clean on the unchanged tree)")})
    m = {
        "version": 1,
        "setup_cmd": "./setup.sh",
        "hooks": {
            "guard": "REATA_SQLLINEAGE_VERIF",
            "enable": "no source hooks: the checks load /repo's current sqllineage source through an import hook (lx/hook.py, AST "
                      "rewrite at import time) and patch module attributes from the harness process; the guard variable is unused",
            "baseline_off_cmd": "cd /repo && /venv/bin/python -m pytest -ra -q -p no:cacheprovider --timeout=900 --continue-on-collection-errors",
            "source_commits": [],
            "add_only": True,
        },
        "engines": [{
            "name": "lx",
            "path": "/verif/lx",
            "serves_properties": sorted(CLAIMED),
            "kind_free_text": "lifted execution: the real sqllineage code runs under CPython on SymStr/SymInt inputs; every branch on a "
                              "symbolic condition is a z3 (qfbv) feasibility query; DFS over feasible decision sequences; "
                              "counterexamples are concretised, rendered to SQL and replayed on the unmodified library",
        }],
        "checks": checks,
        "notes": "Exit 3 from a check is a harness error (inconclusive path, solver unknown, non-reproducing counterexample, "
                 "timeout): never a verdict. Known findings live in /verif/known_findings.json. See DESIGN.md.",
        "not_applicable": na,
    }
    with open(os.path.join(HERE, "MANIFEST.json"), "w") as f:
        json.dump(m, f, indent=1)
    print("claimed:", sorted(CLAIMED), "not claimed:", [x["property_id"] for x in na])


if __name__ == "__main__":
    main()
