#!/bin/sh
# round-4 seeds: confirm change <n> delivered by a sub-agent in <worktree>/out (patch<n>.diff, demo<n>.py) and keep it as
# /verif/seeded/<name>: demo passes without it, fails with it, test suite unchanged with it
# usage: keep_seed4.sh <worktree> <n> <seed-name> <property-id>
WT="$1"; N="$2"; NAME="$3"; PID="$4"
OUT=/verif/seeded/$NAME
cd "$WT" || exit 2
[ -f out/patch$N.diff ] && [ -f out/demo$N.py ] || { echo "no patch$N/demo$N in $WT/out"; exit 2; }
git checkout -q -- .
/venv/bin/python out/demo$N.py >/dev/null 2>&1; R0=$?
git apply out/patch$N.diff || { echo "patch does not apply"; exit 2; }
/venv/bin/python out/demo$N.py >/dev/null 2>&1; R1=$?
SUMMARY=$(/venv/bin/python -m pytest -q -p no:cacheprovider --timeout=900 -x --deselect tests/core/test_drawing.py::test_handler --deselect "tests/sql/column/test_column_select_column_dialect_specific.py::test_tsql_assignment_operator" --deselect tests/sql/table/multiple_statements/test_tmp_table.py::test_create_after_drop --deselect tests/sql/table/test_create.py::test_create_if_not_exist 2>&1 | tail -1)
git checkout -q -- .
echo "$NAME: demo_without_patch_rc=$R0 demo_with_patch_rc=$R1 pytest: $SUMMARY"
[ "$R0" = 0 ] && [ "$R1" != 0 ] || { echo "NOT CONFIRMED"; exit 1; }
mkdir -p "$OUT"
cp out/patch$N.diff "$OUT/patch.diff"; cp out/demo$N.py "$OUT/demo_$PID.py"; cp out/notes.md "$OUT/NOTES.md" 2>/dev/null
python3 - "$OUT" "$NAME" "$PID" "$R0" "$R1" "$SUMMARY" "demo_$PID.py" "$N" <<'PY'
import json,sys
out,name,pid,r0,r1,summary,demo,n=sys.argv[1:9]
meta={"name":name,"property":pid,"breaks_property":pid,"demo":demo,"change_number_in_notes":int(n),
      "confirmed":{"demo_rc_without_patch":int(r0),"demo_rc_with_patch":int(r1),"pytest_with_patch_excluding_4_baseline_failures":summary},
      "what_i_ran":["git checkout -- .; /venv/bin/python out/demo%s.py from the worktree root (expect rc 0)"%n,"git apply out/patch%s.diff; /venv/bin/python out/demo%s.py (expect rc != 0)"%(n,n),"/venv/bin/python -m pytest -q -x (the 4 always-failing baseline tests deselected) with the patch applied (expect 425 passed)"],
      "origin":"fresh sub-agent given only the property text and a scratch worktree of /repo (round 4)"}
json.dump(meta,open(out+"/meta.json","w"),indent=1)
PY
