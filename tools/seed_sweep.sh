#!/bin/sh
# run every claimed check's quick tier under several seeds; print one line per (check, seed)
cd "$(dirname "$0")/.." || exit 2
PIDS=$(python3 -c "import json;print(' '.join(c['property_id'] for c in json.load(open('MANIFEST.json'))['checks']))")
for SEED in ${SEEDS:-2 3 4 5}; do
  for P in $PIDS; do
    VERIF_SEED=$SEED ./vcheck $P --tier quick > /tmp/sweep_$P_$SEED.log 2>&1; RC=$?
    echo "seed=$SEED check=$P rc=$RC $(tail -1 /tmp/sweep_$P_$SEED.log | cut -c1-160)"
    if [ $RC -ne 0 ]; then grep -m3 '^VIOLATION\|^HARNESS' /tmp/sweep_$P_$SEED.log | cut -c1-600; fi
  done
done
