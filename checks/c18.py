"""
C18  The graph export is faithful to the lineage graph.

On every lifted result of the corpus statements and of the C04 chain scripts, at both export levels, with the names
FREE (so "two distinct nodes print the same name" is searched over all namings): exported node ids pairwise distinct;
every edge endpoint and every parent reference is the id of an exported node; exported nodes/edges correspond one to
one to the graph's nodes/edges (plus the compound parents at column level); the text summary lists the same source,
target and intermediate tables, each once, in sorted order.
"""
from __future__ import annotations

from checks import corpus, gen
from checks.tpl import StmtOb, choose_free, make_names, reentrant_slots, validity_assumptions
from lx.check import Verdict
from lx.engine import SymStr, sym_value
from lx.lifted import LiftedScript, dump_runner, set_eq, twin_runner
from lx.tree import PLACEHOLDER

PID = "C18"
BOUNDS = ("corpus of checks/corpus.py and the 12 chain scripts of C04; up to 5 (quick) / 6 (thorough) free table/alias/derived-alias/CTE "
          "names per instance (2 characters); both export levels; verbose summary not included")
STUBS = ["sqllineage.runner.split / SqlFluffLineageAnalyzer._list_specific_statement_segment (parser boundary)"]
ASSUMPTIONS = ["SQL validity assumptions of C08", "the graph is read through runner._sql_holder (table_lineage_graph / column_lineage_graph)",
               "front-end JS is outside the claim"]


def eqs(a, b):
    return bool(SymStr.const(a) == SymStr.const(b))


def check_export(nodes_edges, graph, compound):
    """-> None or a description of the first broken obligation (works on SymStr and on plain str alike)"""
    nodes = [x["data"] for x in nodes_edges if "source" not in x["data"]]
    edges = [x["data"] for x in nodes_edges if "source" in x["data"]]
    ids = [n["id"] for n in nodes]
    for i in range(len(ids)):
        for k in range(i + 1, len(ids)):
            if eqs(ids[i], ids[k]):
                return ("duplicate node id", ids[i])
    has = lambda x: any(eqs(x, i) for i in ids)
    for e in edges:
        if not has(e["source"]) or not has(e["target"]):
            return ("edge endpoint is not an exported node", (e["source"], e["target"]))
    for n in nodes:
        if "parent" in n and not has(n["parent"]):
            return ("parent reference is not an exported node", n["parent"])
    if graph is not None:
        gn = [str(n) for n in graph.nodes]
        ge = [(str(u), str(v)) for u, v in graph.edges]
        own = [n for n in nodes if (not compound) or "parent" in n]
        if len(own) != len(gn) or not all(has(x) for x in gn):
            return ("exported nodes do not correspond to the graph's nodes", (len(own), len(gn)))
        if len(edges) != len(ge) or not all(any(eqs(e["source"], u) and eqs(e["target"], v) for e in edges) for u, v in ge):
            return ("exported edges do not correspond to the graph's edges", (len(edges), len(ge)))
        if compound:
            parents = [n for n in nodes if "parent" not in n]
            for n in graph.nodes:
                # (a subquery owner may be labelled by another alias of the textually same subquery: only tables/paths and
                # unresolved columns have a canonical owner label)
                if n.parent is not None and type(n.parent).__name__ == "SubQuery":
                    continue
                want = str(n.parent) if n.parent is not None else "<unknown>"
                if not any(eqs(p["id"], want) for p in parents):
                    return ("a column's owner is not exported as compound parent", want)
    return None


def check_summary(text, src, tgt, mid):
    """the text summary lists the same tables, each once, in sorted order"""
    lines = str(text).split("\n")
    def block(title, until):
        out, on = [], False
        for ln in lines:
            if eqs(ln, title):
                on = True
                continue
            if on:
                if not bool(SymStr.const(ln).startswith("    ")):
                    break
                out.append(SymStr.const(ln)[4:])
        return out
    for title, want in (("Source Tables:", src), ("Target Tables:", tgt), ("Intermediate Tables:", mid)):
        got = block(title, None)
        got = [g for g in got if len(g)]
        if len(got) != len(want) or not all(any(eqs(g, w) for g in got) for w in want):
            return ("summary section differs from the accessor", title)
        for i in range(len(got) - 1):
            if not bool(SymStr.const(got[i]) < SymStr.const(got[i + 1])):
                return ("summary section is not sorted / has a duplicate", title)
    return None


def analyse(lr):
    lr.source_tables          # results are evaluated lazily
    h = lr._sql_holder
    # the reference is the lineage graph itself, restricted here (not through the holder's own table / column views)
    g = h.graph
    tg = g.subgraph([n for n in g.nodes if type(n).__name__ in ("Table", "Path", "SqlFluffTable", "SqlParseTable")])
    cg = g.subgraph([n for n in g.nodes if type(n).__name__ in ("Column", "SqlFluffColumn", "SqlParseColumn")])
    why = check_export(lr.to_cytoscape(), tg, False)
    if why is None:
        why = check_export(lr.to_cytoscape("column"), cg, True)
    if why is None:
        why = check_summary(str(lr), [str(t) for t in lr.source_tables], [str(t) for t in lr.target_tables],
                            [str(t) for t in lr.intermediate_tables])
    return why


REPLAY = r'''
import warnings
warnings.simplefilter("ignore")
from sqllineage.runner import LineageRunner
c = %(c)s
def eqs(a, b): return a == b
class SymStr:
    const = staticmethod(lambda x: x)
%(src)s
lr = LineageRunner(c["sql"], dialect=c["dialect"])
why = analyse(lr)
result = {"ok": why is None, "why": repr(why)}
'''


def replay_code(conc):
    import inspect

    src = "\n".join(inspect.getsource(f) for f in (check_export, check_summary, analyse))
    return REPLAY % {"c": repr({"sql": conc["sql"], "dialect": conc["dialect"]}), "src": src}


class ExportOb(StmtOb):
    def __init__(self, key, st, budget, seed, quotes=None):
        super().__init__(key, st, "ansi", quotes=quotes)
        cand = [x for x in self.slots if x not in reentrant_slots(st)]
        self.free = choose_free(cand, self.free_kinds, budget, ("a", "d", "c"), "c18/%s/%s" % (seed, key))
        self.key = "stmt/" + key + ("/quoted" if quotes else "")

    def names(self, prefix="n"):
        return make_names(self.slots, self.free_kinds, 2, prefix=prefix, free_slots=self.free)

    def region(self, why, lr):
        return region(why, lr)

    def body(self):
        names = self.names()
        validity_assumptions(self.st, self.val(names))
        lr = self.script.runner(names)
        d = dump_runner(lr)
        why = analyse(twin_runner(lr, paths=False))
        return Verdict(why is None, {"names": names, "lifted": d, "expected": None, "extra": {"why": why}},
                       self.region(why, lr) if why else None)

    def replay(self, conc, verdict_ok):
        from lx import replay as R

        r = R.run_code(replay_code(conc))
        if not r.get("ok"):
            return {"real_ok": False, "lifted_matches": False, "detail": r}
        res = r["result"]
        return {"real_ok": res["ok"], "lifted_matches": res["ok"] == verdict_ok, "detail": res}


def region(why, lr):
    """recorded finding: two DISTINCT column nodes print the same name - columns of two different subqueries sharing an
    alias, or unresolved columns with different candidate owners"""
    if why and why[0] in ("duplicate node id", "exported nodes do not correspond to the graph's nodes"):
        from sqllineage.core.models import Column, SubQuery

        g = lr._sql_holder.column_lineage_graph
        cols = list(g.nodes)
        subs = []
        for c in cols:
            if isinstance(c.parent, SubQuery) and not any(c.parent is s for s in subs):
                subs.append(c.parent)
        for i in range(len(subs)):
            for k in range(i + 1, len(subs)):
                if not bool(subs[i] == subs[k]) and eqs(str(subs[i]), str(subs[k])):
                    return "C18-duplicate-column-ids-for-distinct-nodes"
        for i in range(len(cols)):
            for k in range(i + 1, len(cols)):
                a, b = cols[i], cols[k]
                if eqs(str(a), str(b)):
                    pa, pb = a.parent, b.parent
                    if (isinstance(pa, SubQuery) and isinstance(pb, SubQuery)) or (pa is None and pb is None):
                        return "C18-duplicate-column-ids-for-distinct-nodes"
    return None


class ChainExportOb(ExportOb):
    def __init__(self, name, sts):
        self.sts = sts
        self.stmts = [gen.Renderer().stmt(s) for s in sts]
        self.dialect = "ansi"
        self.quotes = {}
        self.key = "chain/" + name
        self.slots = list(dict.fromkeys(m.lower() for s in self.stmts for m in PLACEHOLDER.findall(s)))
        self.free = set(self.slots)

    def names(self, prefix="n"):
        return make_names(self.slots, ("t", "k", "d", "c"), 2, prefix=prefix)

    def body(self):
        names = self.names()
        lr = self.script.runner(names)
        d = dump_runner(lr)
        why = analyse(twin_runner(lr, paths=False))
        return Verdict(why is None, {"names": names, "lifted": d, "expected": None, "extra": {"why": why}},
                       region(why, lr) if why else None)


RAW = {
    "path_target/sparksql": ("sparksql", "INSERT OVERWRITE DIRECTORY 'hdfs://nn/zqp1' SELECT ca, cb FROM zqt1"),
    "path_target_join/sparksql": ("sparksql", "INSERT OVERWRITE DIRECTORY 'hdfs://nn/zqp1' SELECT a.ca, b.cb FROM zqt1 AS a JOIN zqt2 AS b ON a.id = b.id"),
    "path_source/sparksql": ("sparksql", "INSERT INTO zqt1 SELECT ca, cb FROM parquet.`/data/zqp1`"),
    "copy_from_path/postgres": ("postgres", "COPY zqt1 FROM 's3://bucket/zqp1'"),
    # textually the same derived table under two aliases (a self join of a derived table): one subquery node, two alias names
    "same_subquery_two_aliases/ansi": ("ansi", "INSERT INTO zqt1 SELECT zqd1.ca, zqd2.cb FROM (SELECT ca, cb FROM zqt2) AS zqd1 JOIN (SELECT ca, cb FROM zqt2) AS zqd2 ON zqd1.ca = zqd2.ca"),
}


class RawExportOb(ExportOb):
    def __init__(self, name, dialect, sql):
        self.dialect, self.sql, self.stmts, self.quotes = dialect, sql, [sql], {}
        self.key = "raw/" + name
        self.slots = list(dict.fromkeys(m.lower() for m in PLACEHOLDER.findall(sql)))

    def names(self, prefix="n"):
        from lx.tree import Names

        return Names(default_len=2, prefix=prefix)

    def body(self):
        names = self.names()
        lr = self.script.runner(names)
        d = dump_runner(lr)
        why = analyse(twin_runner(lr, paths=False))
        return Verdict(why is None, {"names": names, "lifted": d, "expected": None, "extra": {"why": why}},
                       region(why, lr) if why else None)


# scripts in which one table may carry several roles at once (all table names free, so "the table the bare SELECT reads
# is the chain's intermediate table" is one of the solver's cases): the summary must agree with the accessors there too
ROLE_SCRIPTS = {
    # the first INSERT writes a column (cb) that nothing downstream consumes: a path may end at the intermediate table
    "chain_then_select": ["INSERT INTO zqt1 SELECT ca, cb FROM zqt2", "INSERT INTO zqt3 SELECT ca FROM zqt4", "SELECT ca FROM zqt5"],
    "create_then_chain": ["CREATE TABLE zqt1 (ca int)", "INSERT INTO zqt2 SELECT ca, cb FROM zqt3", "INSERT INTO zqt4 SELECT ca FROM zqt5"],
    "select_first": ["SELECT ca FROM zqt1", "INSERT INTO zqt2 SELECT ca, cb FROM zqt3", "INSERT INTO zqt4 SELECT ca FROM zqt5"],
    "self_insert_in_chain": ["INSERT INTO zqt1 SELECT ca FROM zqt2 JOIN zqt3 ON zqt2.id = zqt3.id", "INSERT INTO zqt4 SELECT ca FROM zqt5"],
    # DROP / RENAME among data-moving statements: a table filled from constants only (nothing is read for it) may be the
    # one that is dropped later; its columns keep it in the graph
    "constants_then_drop": ["WITH cs AS (SELECT 1 AS ca) INSERT INTO zqt1 SELECT ca FROM cs", "INSERT INTO zqt2 SELECT ca FROM zqt3", "DROP TABLE zqt4"],
    "chain_then_drop": ["INSERT INTO zqt1 SELECT ca FROM zqt2", "DROP TABLE zqt3", "INSERT INTO zqt4 SELECT ca FROM zqt5"],
    "chain_then_rename": ["INSERT INTO zqt1 SELECT ca FROM zqt2", "INSERT INTO zqt3 SELECT ca FROM zqt1", "ALTER TABLE zqt4 RENAME TO zqt5"],
    "two_selects_one_write": ["SELECT ca FROM zqt1", "CREATE TABLE zqt2 (ca int)", "INSERT INTO zqt3 SELECT ca FROM zqt4"],
}


# (dialect, statements)
DIALECT_ROLE_SCRIPTS = {
    # a directory written with and read without a trailing slash: two distinct path nodes when the bodies coincide
    "path_slash/sparksql": ("sparksql", ["INSERT OVERWRITE DIRECTORY 'hdfs://nn/zqp1/' SELECT ca FROM zqt1",
                                         "INSERT INTO zqt2 SELECT cb FROM parquet.`hdfs://nn/zqp2`"]),
}


class RoleScriptOb(RawExportOb):
    def __init__(self, name, stmts, dialect="ansi"):
        self.dialect, self.stmts, self.quotes = dialect, list(stmts), {}
        self.sql = ";\n".join(stmts)
        self.key = "roles/" + name
        self.slots = list(dict.fromkeys(m.lower() for q in stmts for m in PLACEHOLDER.findall(q)))


def obligations(tier, seed):
    import random

    from checks.c04 import SHAPES

    rnd = random.Random("c18/%s" % seed)
    tpl = corpus.build(tier, seed)
    obs = [ExportOb(k, st, 5 if tier == "quick" else 6, seed) for k, st in tpl if st.kind not in ("show", "use")]
    if tier == "quick":
        keep = [o for o in obs if ("/plain" in o.key and "/insert/" in o.key) or "merge" in o.key or "update" in o.key or "nodata" in o.key]
        rest = [o for o in obs if o not in keep and "/plain" not in o.key]
        obs = keep + rnd.sample(rest, len(rest) // 3)
    obs += [ChainExportOb(n, s) for n, s in SHAPES.items()]
    obs += [RawExportOb(n, d, q) for n, (d, q) in RAW.items()]
    obs += [RoleScriptOb(n, q) for n, q in ROLE_SCRIPTS.items()]
    obs += [RoleScriptOb(n, q, d) for n, (d, q) in DIALECT_ROLE_SCRIPTS.items()]
    return obs
