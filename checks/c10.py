"""
C10  Total error contract; silent mode skips unsupported statements  (reduced scope, see BOUNDS).

monitor - the real LineageRunner and every accessor run on a list of edge-case statements (4-part names, empty and
          mismatching column lists, vertica SWAP_PARTITIONS_BETWEEN_TABLES with 0-5 arguments, MERGE with a bracketed
          source and no alias, VALUES longer than the column list, multi-pair RENAME, statements without tables, ...) with
          names FREE (incl. names equal to each other): the only exceptions that may escape are SQLLineageException and its
          subclasses.  (Every other template check is a monitor too: there an escaping exception is a harness error.)
silent  - an unsupported-type statement inserted at SYMBOLIC position k of an n<=4 script in silent mode: a warning is
          emitted and the result equals that of the script without it, for all names; in normal mode
          UnsupportedStatementException escapes and nothing else.
parse   - kernel: Linter.parse_string stubbed by a SYMBOLIC list of violations and SYMBOLIC statement text (alphabet with
          templating / formatting / quoting metacharacters): InvalidSyntaxException iff a lex or parse violation is
          present, no other exception for any text, and an empty parse is UnsupportedStatementException.
NOT claimed: arbitrary or mutated TEXT - the sqlfluff templater / lexer / parser escape routes (e.g. an unbalanced '{{',
a parser-internal runtime error) are outside the reach of any encoding available here.
"""
from __future__ import annotations

from checks.c15 import fork_bool, fork_choice
from checks.common import TemplateObligation
from lx.check import Obligation, Verdict
from lx.engine import SymStr, Unsupported, sym_value
from lx.lifted import TWIN, LiftedScript, dump_runner, twin_fault
from lx.tree import Names

PID = "C10"
BOUNDS = ("monitor: 44 edge-case statements x their dialect (incl. more than one write target, SELECT INTO inside a derived table / CTE, a scalar subquery over a "
          "constants-only derived table), names free (2 characters), every accessor of the same runner asked again after a library exception; silent (also under "
          "dialect tsql in TSQL_NO_SEMICOLON mode): scripts of 1-3 supported statements + one "
          "unsupported statement at position k in 0..3, 4 unsupported kinds; parse kernel: 0-3 violations of 4 classes, statement text of "
          "4 symbolic characters over {a, %, {, }, ', \\, ;, space}. Arbitrary / mutated text is NOT claimed")
STUBS = ["sqllineage.runner.split / SqlFluffLineageAnalyzer._list_specific_statement_segment (parser boundary; monitor and silent families)",
         "sqlfluff Linter as seen by sqllineage.core.parser.sqlfluff.analyzer (parse kernel) -> object with a symbolic violations list"]
ASSUMPTIONS = ["warnings are observed through warnings.catch_warnings(record=True)"]

EDGE = {
    "scalar_over_constant_derived": ("ansi", ["SELECT CASE WHEN (SELECT ca FROM (SELECT 1 AS ca) sq) > 1 THEN 1 END AS cc FROM zqt1"]),
    "scalar_over_constant_derived_insert": ("ansi", ["INSERT INTO zqt2 SELECT coalesce((SELECT max(ca) FROM (SELECT 1 AS ca) sq), cb) AS cc FROM zqt1"]),
    # more than one write target (the library's own generic error), also where the inner writer sits in a derived table / a CTE
    "two_write_targets/postgres": ("postgres", ["INSERT INTO zqt1 SELECT ca INTO zqt2 FROM zqt3"]),
    "two_write_targets/tsql": ("tsql", ["INSERT INTO zqt1 SELECT ca INTO zqt2 FROM zqt3"]),
    "select_into_in_derived/postgres": ("postgres", ["SELECT sq.ca FROM (SELECT ca INTO zqt1 FROM zqt2) sq"]),
    "select_into_in_derived/tsql": ("tsql", ["SELECT sq.ca FROM (SELECT ca INTO zqt1 FROM zqt2) sq"]),
    "select_into_in_derived_insert/tsql": ("tsql", ["INSERT INTO zqt3 SELECT sq.ca FROM (SELECT ca INTO zqt1 FROM zqt2) sq"]),
    "select_into_in_cte/postgres": ("postgres", ["WITH zqc1 AS (SELECT ca INTO zqt1 FROM zqt2) SELECT ca FROM zqc1"]),
    "four_part_name": ("ansi", ["SELECT ca FROM zqs1.zqs2.zqs3.zqt1"]),
    "four_part_target": ("ansi", ["INSERT INTO zqs1.zqs2.zqs3.zqt1 SELECT ca FROM zqt2"]),
    "column_list_longer": ("ansi", ["INSERT INTO zqt1 (ca, cb, cc) SELECT ca FROM zqt2"]),
    "column_list_shorter": ("ansi", ["INSERT INTO zqt1 (ca) SELECT ca, cb, cc FROM zqt2"]),
    "values_longer_than_list": ("ansi", ["INSERT INTO zqt1 (ca) VALUES (1, 2, 3)"]),
    "values_with_subquery": ("ansi", ["INSERT INTO zqt1 VALUES ((SELECT max(ca) FROM zqt2), 2)"]),
    "select_without_table": ("ansi", ["SELECT 1"]),
    "insert_select_without_table": ("ansi", ["INSERT INTO zqt1 SELECT 1, 2"]),
    "merge_bracketed_source_no_alias": ("ansi", ["MERGE INTO zqt1 USING (SELECT ca, id FROM zqt2) ON zqt1.id = id WHEN MATCHED THEN UPDATE SET zqt1.ca = ca"]),
    "merge_insert_more_values": ("ansi", ["MERGE INTO zqt1 USING zqt2 ON zqt1.id = zqt2.id WHEN NOT MATCHED THEN INSERT (ca) VALUES (zqt2.ca, zqt2.cb)"]),
    "merge_insert_no_columns": ("ansi", ["MERGE INTO zqt1 USING zqt2 ON zqt1.id = zqt2.id WHEN NOT MATCHED THEN INSERT VALUES (zqt2.ca)"]),
    "update_without_from": ("ansi", ["UPDATE zqt1 SET ca = 1"]),
    "update_set_two_refs": ("ansi", ["UPDATE zqt1 SET ca = zqt2.cb, cc = 3 FROM zqt2"]),
    "rename_two_pairs": ("mysql", ["INSERT INTO zqt1 SELECT ca FROM ta", "INSERT INTO zqt3 SELECT cb FROM tb", "RENAME TABLE zqt1 TO zqt2, zqt3 TO zqt4"]),
    "rename_odd": ("mysql", ["RENAME TABLE zqt1 TO zqt2"]),
    "alter_rename_self": ("ansi", ["INSERT INTO zqt1 SELECT ca FROM zqt2", "ALTER TABLE zqt1 RENAME TO zqt3"]),
    "drop_unknown": ("ansi", ["DROP TABLE zqt1", "DROP TABLE zqt2"]),
    "swap_partitions_0": ("vertica", ["SELECT swap_partitions_between_tables()"]),
    "swap_partitions_1": ("vertica", ["SELECT swap_partitions_between_tables('zqt1')"]),
    "swap_partitions_3": ("vertica", ["SELECT swap_partitions_between_tables('zqt1', 1, 2)"]),
    "swap_partitions_4": ("vertica", ["SELECT swap_partitions_between_tables('zqt1', 1, 2, 'zqt2')"]),
    "swap_partitions_5": ("vertica", ["SELECT swap_partitions_between_tables('zqt1', 1, 2, 'zqt2', 5)"]),
    "cte_only_insert": ("ansi", ["WITH zqc1 AS (SELECT ca FROM zqt1) INSERT INTO zqt2 SELECT ca FROM zqc1"]),
    "union_different_arity": ("ansi", ["INSERT INTO zqt1 SELECT ca, cb FROM zqt2 UNION ALL SELECT cc FROM zqt3"]),
    "copy_paths": ("postgres", ["COPY zqt1 FROM 's3://bucket/zqp1'"]),
    "insert_overwrite_directory": ("sparksql", ["INSERT OVERWRITE DIRECTORY 'hdfs://nn/zqp1' SELECT ca FROM zqt1"]),
    "update_only": ("postgres", ["UPDATE ONLY zqt1 SET ca = zqt2.cb FROM zqt2"]),
    "update_only_no_from": ("postgres", ["UPDATE ONLY zqt1 SET ca = cb"]),
    # a file (Path) in the FROM group of a statement that also writes: the alias mapping is built over Table | SubQuery | Path
    "ctas_from_file": ("sparksql", ["CREATE TABLE zqt1 AS SELECT ca FROM csv.`/data/zqp1`"]),
    "overwrite_dir_from_file": ("sparksql", ["INSERT OVERWRITE DIRECTORY 'hdfs://nn/zqp1' SELECT ca FROM json.`/data/zqp2`"]),
    "file_in_subquery": ("sparksql", ["INSERT INTO zqt1 SELECT d.ca FROM (SELECT ca FROM parquet.`/data/zqp1`) AS d"]),
    "file_join_table": ("databricks", ["INSERT INTO zqt1 SELECT a.ca, b.cb FROM parquet.`/data/zqp1` AS a JOIN zqt2 AS b ON a.id = b.id"]),
}
# every dialect-specific statement kind of C01 is under the error contract too
from checks.c01 import RAW as _C01_RAW

for _n, (_d, _q, _e) in _C01_RAW.items():
    EDGE.setdefault("kind_" + _n.split("/")[0], (_d, [_q]))


def accessors(lr):
    dump_runner(lr)
    lr.to_cytoscape(), lr.to_cytoscape("column"), str(lr), lr.statements()


class MonitorOb(TemplateObligation):
    def __init__(self, name, dialect, stmts):
        self.name, self.dialect, self.stmts = name, dialect, list(stmts)
        self.key = "monitor/%s@%s" % (name, dialect)

    def region(self, exc, names):
        return None      # the three escapes found here were repaired in /repo (see known_findings.json): nothing is absorbed

    def body(self):
        from sqllineage.exceptions import SQLLineageException

        names = Names(default_len=2)
        exc = None
        try:
            lr = self.script.runner(names)
            accessors(lr)
            TWIN["n"] = 0
            twin_fault()
        except SQLLineageException as e:
            exc = None          # the library's own exception types are within the contract
            lib = type(e).__name__
            # ... and so is every accessor of the SAME runner object asked after the failure ("any accessor")
            exc = self.again(lr)
        except Exception as e:
            exc = type(e).__name__
        return Verdict(exc is None, {"names": names, "escaped": exc}, self.region(exc, names) if exc else None)

    @staticmethod
    def again(lr):
        from sqllineage.exceptions import SQLLineageException

        for acc in (lambda: lr.source_tables, lambda: lr.get_column_lineage(), lambda: lr.to_cytoscape(), lambda: str(lr), lambda: lr.statements()):
            try:
                acc()
            except SQLLineageException:
                pass
            except Exception as e:
                return "%s on a later access" % type(e).__name__
        return None

    def concretise(self, verdict, model):
        n = verdict.data["names"].concretise(model)
        return {"names": n, "sql": self.script.render(n), "dialect": self.dialect, "escaped": verdict.data["escaped"]}

    def replay(self, conc, verdict_ok):
        from lx import replay as R

        r = R.run_real(conc["sql"], self.dialect, cyto=True, statements=True, again=True)
        if r.get("ok"):
            return {"real_ok": True, "lifted_matches": verdict_ok, "detail": "returned a result"}
        own = "SQLLineageException" in r.get("mro", [])
        return {"real_ok": own, "lifted_matches": own == verdict_ok, "detail": {"escaped": r.get("error"), "message": (r.get("message") or "")[:200]},
                "finding": self.region(r.get("error"), None) if not own else None}


class EmptyParseOb(TemplateObligation):
    """a statement that parses cleanly to NO statement segment at position k, normal and silent mode: the outcome is a
    result or one of the library's own exceptions, never an internal error"""

    dialect = "ansi"

    def __init__(self, n):
        self.n = n
        self.key = "empty-parse/n%d" % n
        self.stmts = SUPPORTED[:n]

    def prepare(self):
        self.sc = {}
        for k in range(self.n + 1):
            st = list(SUPPORTED[:self.n])
            st.insert(k, None)
            self.sc[k] = LiftedScript(st, "ansi")

    def body(self):
        from sqllineage.exceptions import SQLLineageException

        names = Names(default_len=2)
        k = fork_choice("pos", self.n + 1)
        silent = fork_bool("silent")
        esc = None
        try:
            dump_runner(self.sc[k].runner(names, silent_mode=silent))
            TWIN["n"] = 0
            twin_fault()
        except SQLLineageException:
            pass
        except Exception as e:
            esc = type(e).__name__
        return Verdict(esc is None, {"names": names, "k": k, "silent": silent, "escaped": esc})

    def concretise(self, verdict, model):
        d = verdict.data
        n = d["names"].concretise(model)
        st = [ps.render(n) for ps in self.sc[d["k"]].stmts]
        st.insert(d["k"], "{# nothing to analyse #}")
        return {"names": n, "sql": ";\n".join(st), "silent": d["silent"], "escaped": d["escaped"]}

    def replay(self, conc, verdict_ok):
        from lx import replay as R

        r = R.run_real(conc["sql"], "ansi", silent_mode=conc["silent"])
        own = r.get("ok") or "SQLLineageException" in r.get("mro", [])
        return {"real_ok": bool(own), "lifted_matches": bool(own) == verdict_ok, "detail": {"error": r.get("error"), "m": (r.get("message") or "")[:120]}}


UNSUPPORTED = {"create_index": "CREATE INDEX ix ON ta (ca)", "grant": "GRANT SELECT ON ta TO ra", "commit": "COMMIT", "explain_like": "EXPLAIN SELECT ca FROM ta WHERE cb LIKE 'a%'"}
SUPPORTED = ["INSERT INTO zqt1 SELECT ca FROM zqt2", "CREATE TABLE zqt3 AS SELECT cb FROM zqt1", "SELECT cc FROM zqt4"]


class SilentOb(TemplateObligation):
    dialect = "ansi"

    def __init__(self, n, ukind, tsql=False):
        # tsql: dialect tsql in TSQL_NO_SEMICOLON mode (the runner takes another route to its analyzer there)
        self.n, self.ukind, self.tsql = n, ukind, tsql
        self.dialect = "tsql" if tsql else "ansi"
        self.key = "silent/n%d/%s%s" % (n, ukind, "/tsql-no-semicolon" if tsql else "")
        self.stmts = SUPPORTED[:n]

    def prepare(self):
        self.base = LiftedScript(SUPPORTED[:self.n], self.dialect)
        self.with_u = {}
        for k in range(self.n + 1):
            st = list(SUPPORTED[:self.n])
            st.insert(k, UNSUPPORTED[self.ukind])
            self.with_u[k] = LiftedScript(st, self.dialect)

    def body(self):
        import warnings

        from sqllineage.exceptions import SQLLineageException, UnsupportedStatementException

        names = Names(default_len=2)
        k = fork_choice("pos", self.n + 1)
        silent = fork_bool("silent")
        sc = self.with_u[k]
        why = None
        import contextlib

        from sqllineage.config import SQLLineageConfig

        mode = (lambda: SQLLineageConfig(TSQL_NO_SEMICOLON=True)) if self.tsql else contextlib.nullcontext
        try:
            with warnings.catch_warnings(record=True) as w, mode():
                warnings.simplefilter("always")
                lr = sc.runner(names, silent_mode=silent, tsql=self.tsql)
                got = dump_runner(lr, quiet=False)
            if not silent:
                why = "an unsupported statement did not raise in normal mode"
            else:
                if not any("support" in str(x.message) for x in w):
                    why = "no warning was emitted for the skipped statement"
                with mode():
                    want = dump_runner(self.base.runner(names, tsql=self.tsql))
                if why is None and not got.same(want):
                    why = "result differs from the script without the unsupported statement"
        except UnsupportedStatementException:
            if silent:
                why = "UnsupportedStatementException escaped in silent mode"
            else:
                # the same runner asked again after the failure stays within the contract
                esc = MonitorOb.again(lr)
                if esc:
                    why = "internal error escaped: " + esc
        except SQLLineageException as e:
            why = "another library exception: " + type(e).__name__
        except Exception as e:
            why = "internal error escaped: " + type(e).__name__
        return Verdict(why is None, {"names": names, "k": k, "silent": silent, "why": why})

    def concretise(self, verdict, model):
        d = verdict.data
        n = d["names"].concretise(model)
        sep = "\n" if self.tsql else ";\n"
        return {"names": n, "sql": self.with_u[d["k"]].render(n, sep=sep), "sql_without": self.base.render(n, sep=sep), "silent": d["silent"], "why": d["why"]}

    def replay(self, conc, verdict_ok):
        from lx import replay as R

        cfg = {"TSQL_NO_SEMICOLON": True} if self.tsql else None
        r = R.run_real(conc["sql"], self.dialect, silent_mode=conc["silent"], again=not conc["silent"], config=cfg)
        if not conc["silent"]:
            ok = (not r.get("ok")) and r.get("error") == "UnsupportedStatementException"
            return {"real_ok": ok, "lifted_matches": ok == verdict_ok, "detail": {"error": r.get("error"), "m": (r.get("message") or "")[:150]}}
        if not r.get("ok"):
            return {"real_ok": False, "lifted_matches": not verdict_ok, "detail": {"error": r.get("error"), "m": (r.get("message") or "")[:150]}}
        r0 = R.run_real(conc["sql_without"], self.dialect, config=cfg)
        ok = R.same_dump(r, r0) and "UserWarning" in r.get("warnings", [])
        return {"real_ok": ok, "lifted_matches": ok == verdict_ok, "detail": {"warnings": r.get("warnings")}}


class ParseKernelOb(Obligation):
    def __init__(self, nv):
        self.nv = nv
        self.key = "parse/violations%d" % nv

    def describe(self):
        return {"key": self.key}

    def body(self):
        import sqllineage.core.parser.sqlfluff.analyzer as an
        from sqlfluff.core import SQLLexError, SQLParseError
        from sqlfluff.core.errors import SQLLintError, SQLTemplaterError
        from sqllineage.core.metadata.dummy import DummyMetaDataProvider
        from sqllineage.exceptions import InvalidSyntaxException, SQLLineageException, UnsupportedStatementException

        classes = [SQLLexError, SQLParseError, SQLTemplaterError, ValueError]
        picks = [fork_choice("v%d" % i, len(classes)) for i in range(self.nv)]
        vio = []
        for p in picks:
            c = classes[p]
            try:
                vio.append(c("violation") if c is ValueError else c.__new__(c))
            except Exception:
                vio.append(c.__new__(c))
        for v in vio:
            if not isinstance(v, ValueError):
                v.__dict__.update(description="x", line_no=1, line_pos=1, fatal=False, ignore=False, warning=False, segment=None)
                type(v).__str__ = lambda self: "violation"

        class Tree:
            segments = []

        class Parsed:
            violations = vio
            tree = Tree()

        class FakeLinter:
            def __init__(self, config=None, **k):
                pass

            def parse_string(self, sql, *a, **k):
                return Parsed()

        text = SymStr.var("sql", 4, "a%{}'\\; ")
        real = an.Linter
        an.Linter = FakeLinter
        raised = None
        try:
            a = an.SqlFluffLineageAnalyzer(".", "ansi")
            real_list = getattr(an.SqlFluffLineageAnalyzer, "__lx_real_list__", None)
            try:
                if real_list is not None:
                    segs = real_list(a, text)
                    if not segs:
                        raise UnsupportedStatementException("SQLLineage cannot parse SQL")
                else:
                    a.analyze(text, DummyMetaDataProvider())
            except SQLLineageException as e:
                raised = type(e).__name__
            except Exception as e:
                raised = "internal:" + type(e).__name__
        finally:
            an.Linter = real
        want = "InvalidSyntaxException" if any(p in (0, 1) for p in picks) else "UnsupportedStatementException"
        if TWIN["on"]:      # sensitivity twin: the observed outcome is another one
            TWIN["n"] += 1
            raised = "twin:%s" % raised
        return Verdict(raised == want, {"violations": [classes[p].__name__ for p in picks], "text": text, "raised": raised, "want": want})

    def replay(self, conc, verdict_ok):
        # the kernel's contract point reproduced on the unmodified library: the same stubbed Linter, concrete text
        from lx import replay as R

        code = REPLAY_PARSE % {"c": repr(conc)}
        r = R.run_code(code)
        if not r.get("ok"):
            return {"real_ok": False, "lifted_matches": False, "detail": r}
        res = r["result"]
        return {"real_ok": res["ok"], "lifted_matches": res["ok"] == verdict_ok, "detail": res}


REPLAY_PARSE = r'''
import warnings
warnings.simplefilter("ignore")
import sqllineage.core.parser.sqlfluff.analyzer as an
from sqlfluff.core import SQLLexError, SQLParseError
from sqlfluff.core.errors import SQLTemplaterError
from sqllineage.core.metadata.dummy import DummyMetaDataProvider
from sqllineage.exceptions import SQLLineageException
c = %(c)s
M = {"SQLLexError": SQLLexError, "SQLParseError": SQLParseError, "SQLTemplaterError": SQLTemplaterError, "ValueError": ValueError}
vio = []
for n in c["violations"]:
    k = M[n]
    v = k("violation") if k is ValueError else k.__new__(k)
    if k is not ValueError:
        v.__dict__.update(description="x", line_no=1, line_pos=1, fatal=False, ignore=False, warning=False, segment=None)
        k.__str__ = lambda self: "violation"
    vio.append(v)
class Tree: segments = []
class Parsed:
    violations = vio
    tree = Tree()
class FakeLinter:
    def __init__(self, config=None, **k): pass
    def parse_string(self, sql, *a, **k): return Parsed()
real = an.Linter
an.Linter = FakeLinter
try:
    try:
        an.SqlFluffLineageAnalyzer(".", "ansi").analyze(c["text"], DummyMetaDataProvider())
        raised = None
    except SQLLineageException as e: raised = type(e).__name__
    except Exception as e: raised = "internal:" + type(e).__name__
finally:
    an.Linter = real
result = {"ok": raised == c["want"], "raised": raised}
'''


def obligations(tier, seed):
    obs = [MonitorOb(n, d, s) for n, (d, s) in EDGE.items()]
    for n in (1, 2, 3):
        for uk in UNSUPPORTED:
            if tier == "quick" and n == 3 and uk not in ("create_index", "explain_like"):
                continue
            obs.append(SilentOb(n, uk))
            if uk == "create_index":
                obs.append(SilentOb(n, uk, tsql=True))
    obs += [ParseKernelOb(k) for k in (0, 1, 2, 3)]
    obs += [EmptyParseOb(n) for n in (0, 1, 2)]
    return obs
