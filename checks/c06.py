"""
C06  Column lineage is well-formed and consistent with table lineage.

On every lifted result of the corpus statements and of the C04 chain scripts (names FREE): every reported column
path is a chain of direct dependencies (consecutive nodes joined by a lineage edge) that starts at a column nothing
feeds, has at least one hop and ends at a column of a written table; the table owning the last column is a target or
intermediate table; every resolved source column's table is a source or intermediate table and the table graph
connects it to the last column's table; every node of the combined graph is retrievable by equality and hash; a
resolved column has exactly one owner.
"""
from __future__ import annotations

from checks import corpus, gen
from checks.c18 import ChainExportOb, ExportOb, RawExportOb, eqs
from checks.tpl import validity_assumptions
from lx.check import Verdict
from lx.engine import SymStr
from lx.lifted import dump_runner, twin_runner

PID = "C06"
BOUNDS = ("corpus of checks/corpus.py, the 12 chain scripts of C04 and 6 dialect-specific statements (paths, LATERAL VIEW); up to 5 (quick) / "
          "6 (thorough) free names per instance (2 characters)")
STUBS = ["sqllineage.runner.split / SqlFluffLineageAnalyzer._list_specific_statement_segment (parser boundary)"]
ASSUMPTIONS = ["SQL validity assumptions of C08", "the combined graph is read through runner._sql_holder.graph",
               "a statement that reads the table it writes (self-insert) is exempt from the 'has at least one hop' clause only when the "
               "path would be a cycle - it is not exempt here: such namings are assumed away for the hop clause only"]


def analyse(lr):
    import networkx as nx
    from sqllineage.core.models import Column, Path, SubQuery, Table

    lr.source_tables
    h = lr._sql_holder
    g = h.graph
    src = [str(t) for t in lr.source_tables]
    tgt = [str(t) for t in lr.target_tables]
    mid = [str(t) for t in lr.intermediate_tables]
    inn = lambda x, xs: any(eqs(x, y) for y in xs)
    tg = h.table_lineage_graph
    for n in g.nodes:
        if n not in g or g.nodes[n] is None:
            return ("node not retrievable by equality and hash", str(n))
    for n in g.nodes:
        if isinstance(n, Column) and n.parent is not None and len(n.parent_candidates) != 1:
            return ("resolved column with several owners", str(n))
    for path in lr.get_column_lineage(exclude_path_ending_in_subquery=True):
        if len(path) < 2:
            return ("path without a hop", str(path[0]))
        for a, b in zip(path, path[1:]):
            if not g.has_edge(a, b) or g.edges[a, b].get("type") != "lineage":
                return ("consecutive path nodes are not a direct dependency", (str(a), str(b)))
        first, last = path[0], path[-1]
        if any(d.get("type") == "lineage" for _, _, d in g.in_edges(first, data=True)):
            return ("path starts at a column that something feeds", str(first))
        if not isinstance(last.parent, (Table, Path)):
            return ("path does not end at a column of a table", str(last))
        if not (inn(str(last.parent), tgt) or inn(str(last.parent), mid)):
            return ("owner of the last column is neither target nor intermediate", str(last.parent))
        if isinstance(first.parent, (Table, Path)):
            if not (inn(str(first.parent), src) or inn(str(first.parent), mid)):
                return ("a resolved source column's table is not read by the script", str(first.parent))
            if first.parent not in tg or last.parent not in tg or not nx.has_path(tg, first.parent, last.parent):
                return ("table graph does not connect source table and target table", (str(first.parent), str(last.parent)))
    return None


REPLAY = r'''
import warnings
warnings.simplefilter("ignore")
from sqllineage.runner import LineageRunner
c = %(c)s
def eqs(a, b): return a == b
%(src)s
lr = LineageRunner(c["sql"], dialect=c["dialect"])
why = analyse(lr)
result = {"ok": why is None, "why": repr(why)}
'''


def replay_code(conc):
    import inspect

    return REPLAY % {"c": repr({"sql": conc["sql"], "dialect": conc["dialect"]}), "src": inspect.getsource(analyse)}


def region(why, st_kind, key=""):
    if why and why[0] == "a resolved source column's table is not read by the script" and "lateral_view" in key:
        return "C06-lateral-view-alias-owns-columns-but-is-no-table"
    return None


class _Mixin:
    st_kind = None

    def body(self):
        names = self.names()
        if getattr(self, "st", None) is not None:
            from checks.tpl import target_differs_from_sources

            validity_assumptions(self.st, self.val(names))
            target_differs_from_sources(self.st, names, self.quotes)
        for st in getattr(self, "sts", None) or []:
            # chain scripts: a statement does not read the table it writes; an explicit column list has distinct names
            from checks.tpl import target_differs_from_sources
            from lx.engine import eng, f_not

            target_differs_from_sources(st, names)
            if st.cols:
                eng().assume(f_not(names[st.cols[0]].lower()._eq(names[st.cols[1]].lower())))
        lr = self.script.runner(names)
        d = dump_runner(lr)
        why = analyse(twin_runner(lr, paths=True, cyto=False))
        return Verdict(why is None, {"names": names, "lifted": d, "expected": None, "extra": {"why": why}},
                       region(why, self.st.kind if getattr(self, "st", None) is not None else None, self.key) if why else None)

    def replay(self, conc, verdict_ok):
        from lx import replay as R

        r = R.run_code(replay_code(conc))
        if not r.get("ok"):
            return {"real_ok": False, "lifted_matches": False, "detail": r}
        res = r["result"]
        return {"real_ok": res["ok"], "lifted_matches": res["ok"] == verdict_ok, "detail": res}


class StmtWF(_Mixin, ExportOb):
    pass


class ChainWF(_Mixin, ChainExportOb):
    st = None


class RawWF(_Mixin, RawExportOb):
    st = None


class RoleWF(_Mixin, RawExportOb):
    """multi-statement scripts in which one table may carry several roles (the chain's intermediate table is also read by a
    bare SELECT, or first created on its own): all table names free; a statement does not read the table it writes"""
    st = None

    def __init__(self, name, stmts):
        from lx.tree import PLACEHOLDER as _PH

        self.dialect, self.stmts, self.quotes = "ansi", list(stmts), {}
        self.sql = ";\n".join(stmts)
        self.key = "roles/" + name
        self.slots = list(dict.fromkeys(m.lower() for q in stmts for m in _PH.findall(q)))

    def names(self, prefix="n"):
        from lx.engine import eng, f_not
        from lx.tree import PLACEHOLDER as _PH

        n = RawExportOb.names(self, prefix)
        for q in self.stmts:
            sl = [m.lower() for m in _PH.findall(q)]
            if q.startswith("INSERT") and len(sl) > 1:
                for src in sl[1:]:
                    eng().assume(f_not(n[sl[0]].lower()._eq(n[src].lower())))
        return n


RAW = {
    "path_target/sparksql": ("sparksql", "INSERT OVERWRITE DIRECTORY 'hdfs://nn/zqp1' SELECT ca, cb FROM zqt1"),
    "path_source/sparksql": ("sparksql", "INSERT INTO zqt1 SELECT ca, cb FROM parquet.`/data/zqp1`"),
    "copy_from_path/postgres": ("postgres", "COPY zqt1 FROM 's3://bucket/zqp1'"),
    "lateral_view/sparksql": ("sparksql", "INSERT INTO zqt1 SELECT a.ca, zqa1.cb FROM zqt2 AS a LATERAL VIEW explode(a.arr) zqa1 AS cb"),
    "lateral_view_noalias/hive": ("hive", "INSERT INTO zqt1 SELECT ca, cb FROM zqt2 LATERAL VIEW explode(arr) zqa1 AS cb"),
    "select_into/postgres": ("postgres", "SELECT a.ca, b.cb INTO zqt1 FROM zqt2 AS a JOIN zqt3 AS b ON a.id = b.id"),
}


def obligations(tier, seed):
    import random

    from checks.c04 import SHAPES

    rnd = random.Random("c06/%s" % seed)
    tpl = corpus.build(tier, seed)
    obs = [StmtWF(k, st, 5 if tier == "quick" else 6, seed) for k, st in tpl if st.kind not in ("show", "use")]
    if tier == "quick":
        keep = [o for o in obs if ("/plain" in o.key and "/insert/" in o.key) or "merge" in o.key or "update" in o.key or "nodata" in o.key
                or "scalar" in o.key or "expr/" in o.key]
        rest = [o for o in obs if o not in keep and "/plain" not in o.key]
        obs = keep + rnd.sample(rest, len(rest) // 3)
    # the same with every base-table name double-quoted (case kept): unaliased quoted tables used as qualifiers
    from lx.tree import PLACEHOLDER as _PH

    for k, st in tpl:
        if k in ("insert/single/plain", "insert/join_noalias/plain", "insert/comma/plain", "insert/schema/plain", "update/from", "merge/table",
                 "insert/join_noalias/cte", "insert/single/where_in"):
            sql = gen.Renderer().stmt(st)
            q = {m.lower(): "dq" for m in _PH.findall(sql) if m.lower()[2] == "t"}
            obs.append(StmtWF(k, st, 4, seed, quotes=q))
    obs += [ChainWF(n, s) for n, s in SHAPES.items()]
    obs += [RawWF(n, d, q) for n, (d, q) in RAW.items()]
    from checks.c18 import ROLE_SCRIPTS

    obs += [RoleWF(n, q) for n, q in ROLE_SCRIPTS.items()]
    return obs
