"""
C07  Lineage is invariant under layout, comments and letter case  (reduced scope, see BOUNDS).

case   - every letter of every keyword, function name and unquoted identifier (each OCCURRENCE separately) gets a free
         case bit; the tree is parsed once; assertion: tables and named-column pairs equal those of the plain run, for
         all case assignments and all (lower-case) names.  Catches a comparison on raw text instead of the case-folded
         text, or a normalisation that skips a position.
quote  - twin templates: selected identifiers quoted (style of the dialect) vs unquoted, bodies over lower-case
         letters; assertion: equal results for all names.
layout - twin templates: the minimal rendering vs a noise-saturated one (newline + block comment containing ';' +
         line comment at every blank between tokens); assertion: equal results for all names.
NOT claimed: quantification over WHERE whitespace/comments are inserted (positions change the parse and cannot be
solver variables): two renderings are two points.
"""
from __future__ import annotations

import random
import re

from checks import corpus, gen
from checks.tpl import StmtOb, choose_free, make_names, reentrant_slots, slot_kind, validity_assumptions
from lx.check import Verdict
from lx.engine import SymStr
from lx.lifted import LiftedScript, dump_runner
from lx.tree import BODY_LOWER_FIRST, BODY_LOWER_REST, PLACEHOLDER, Names, case_of

PID = "C07"
BOUNDS = ("corpus of checks/corpus.py + 4 three-part-name statements; case: a free case bit per letter per occurrence of every keyword / "
          "function name / unquoted identifier, <=4 free lower-case names; quote: each table-ish slot quoted vs unquoted (\" in ansi, ` in "
          "sparksql, [] in tsql), bodies over lower-case letters, '_' and digits; layout: minimal vs one noise-saturated rendering. "
          "The position of whitespace/comments is NOT quantified")
STUBS = ["sqllineage.runner.split / SqlFluffLineageAnalyzer._list_specific_statement_segment (parser boundary)"]
ASSUMPTIONS = ["the tree shape does not depend on letter case (re-checked on every replayed witness)",
               "only the display name of an un-aliased expression column may follow the text: the corpus aliases every expression"]

NOISE = " /* n;1 */\n-- c;\n "


def noisy(sql):
    return sql.replace(" ", NOISE)


class CaseOb(StmtOb):
    family = "case"

    def __init__(self, key, st, dialect="ansi", budget=4, seed=0, sql=None):
        if st is not None:
            super().__init__(key, st, dialect)
        else:
            self.tkey, self.st, self.dialect, self.quotes = key, None, dialect, {}
            self.sql, self.stmts = sql, [sql]
            self.slots = list(dict.fromkeys(m.lower() for m in PLACEHOLDER.findall(sql)))
        cand = [x for x in self.slots if st is None or x not in reentrant_slots(st)]
        self.free = choose_free(cand, self.free_kinds, budget, ("t", "a"), "c07/%s/%s" % (seed, key))
        self.key = "%s/%s@%s" % (self.family, key, dialect)

    def names(self, prefix="n"):
        n = Names(default_len=2, first=BODY_LOWER_FIRST, rest=BODY_LOWER_REST, prefix=prefix)
        from checks.tpl import fixed_name

        for s in self.slots:
            if slot_kind(s) not in self.free_kinds or s not in self.free:
                n.set(s, fixed_name(s))
        return n

    def prepare(self):
        self.script = LiftedScript([self.sql], self.dialect)
        self.script2 = LiftedScript([self.sql], self.dialect)

    def body(self):
        names = self.names()
        if self.st is not None:
            validity_assumptions(self.st, self.val(names))
        plain = dump_runner(self.script.runner(names))
        occ = {}

        def res(slot, k, leaf, lit):
            return case_of(SymStr.const(names[slot]), "cs_%s_%d" % (slot, k))
        cased = dump_runner(self.script2.runner(resolve=res, anycase_tag="kw"))
        self._last = (names, res)
        return self.verdict(names, cased, plain)

    def concretise(self, verdict, model):
        from lx.engine import sym_value

        out = super().concretise(verdict, model)
        # render the cased text: re-symbolise under the model and read the statement's text back
        names = verdict.data["names"]
        ps = self.script2.stmts[0]
        text = ps.seg.raw
        out["sql2"] = sym_value(text, model)
        return out

    def replay(self, conc, verdict_ok):
        from lx import replay as R

        r1 = R.run_real(conc["sql"], self.dialect)
        r2 = R.run_real(conc["sql2"], self.dialect)
        if not (r1.get("ok") and r2.get("ok")):
            return {"real_ok": False, "lifted_matches": False, "detail": {"r1": r1.get("error"), "r2": r2.get("error"), "m2": (r2.get("message") or "")[:300]}}
        lm = R.same_dump(r2, conc["lifted"]) and R.same_dump(r1, conc["expected"])
        pick = lambda r: {k: r[k] for k in ("sources", "targets", "intermediates", "pairs")}
        return {"real_ok": R.same_dump(r1, r2), "lifted_matches": lm, "detail": {"plain": pick(r1), "rewritten": pick(r2), "sql2": conc["sql2"]}}


class TwinOb(CaseOb):
    """two renderings of the same statement under shared names"""

    def __init__(self, family, key, st, dialect, sql2, budget=4, seed=0, sql=None, lower=True):
        self.family = family
        super().__init__(key, st, dialect, budget, seed, sql=sql)
        self.sql2 = sql2
        self.lower = lower

    def prepare(self):
        from sqllineage.exceptions import InvalidSyntaxException

        self.not_accepted = None
        try:
            self.script = LiftedScript([self.sql], self.dialect)
            self.script2 = LiftedScript([self.sql2], self.dialect)
        except InvalidSyntaxException as e:
            if self.dialect == "ansi":
                raise
            # a corpus shape this dialect's grammar does not accept (e.g. a parenthesised join group under sparksql):
            # nothing to compare, recorded as such
            self.not_accepted = str(e).split("\n")[-1][:120]

    def body(self):
        if self.not_accepted:
            return Verdict(True, {"skipped": "template not accepted under %s: %s" % (self.dialect, self.not_accepted)}, nontrivial=False)
        names = self.names()
        if self.st is not None:
            validity_assumptions(self.st, self.val(names))
        a = dump_runner(self.script.runner(names))
        b = dump_runner(self.script2.runner(names))
        return self.verdict(names, b, a)

    def concretise(self, verdict, model):
        if self.not_accepted:
            return dict(verdict.data)
        out = StmtOb.concretise(self, verdict, model)
        out["sql2"] = self.script2.render(out["names"])
        return out

    def replay(self, conc, verdict_ok):
        if conc.get("skipped"):
            return {"real_ok": True, "lifted_matches": True, "unreplayed": True}
        return CaseOb.replay(self, conc, verdict_ok)


THREE_PART = {
    "three_part_from": "INSERT INTO zqt1 SELECT ca FROM zqs1.zqs2.zqt2",
    "three_part_target": "INSERT INTO zqs1.zqs2.zqt1 SELECT ca FROM zqt2",
    "three_part_join": "INSERT INTO zqt1 SELECT a.ca, b.cb FROM zqs1.zqs2.zqt2 AS a JOIN zqs3.zqt3 AS b ON a.id = b.id",
    "two_part_qualifier": "INSERT INTO zqt1 SELECT zqt2.ca FROM zqs1.zqt2",
    # a qualified wildcard next to a second relation: its qualifier (an alias / a bare table name) quoted or not
    "qualified_star_alias": "INSERT INTO zqt1 SELECT zqa1.*, zqa2.cb FROM zqt2 AS zqa1 JOIN zqt3 AS zqa2 ON zqa1.id = zqa2.id",
    "qualified_star_table": "INSERT INTO zqt1 SELECT zqt2.* FROM zqt2 JOIN zqt3 ON zqt2.id = zqt3.id",
}
QSTYLE = {"ansi": '"%s"', "sparksql": "`%s`", "tsql": "[%s]"}


def quote_slots(sql, slots, dialect):
    out = sql
    for s in slots:
        out = re.sub(r"\b%s\b" % s, QSTYLE[dialect] % s, out)
    return out


def obligations(tier, seed):
    rnd = random.Random("c07/%s" % seed)
    tpl = [(k, st) for k, st in corpus.build(tier, seed) if st.kind not in ("show", "use")]
    obs = []
    base = [x for x in tpl if ("/plain" in x[0] and x[0].startswith("insert/")) or x[0].startswith(("expr/", "merge/", "update/", "nodata/", "insert_cols", "view_cols"))]
    rest = [x for x in tpl if x not in base]
    chosen = base + (rnd.sample(rest, len(rest) // 4) if tier == "quick" else rest)
    for k, st in chosen:
        from checks.tpl import reentrant_slots as _rs

        if _rs(st):
            continue      # the library re-enters on the TEXT of a scalar subquery: its letters cannot carry case bits
        obs.append(CaseOb(k, st, "ansi", 3 if tier == "quick" else 4, seed))
    # quoting twins: every table-ish slot of the statement quoted, one family per dialect
    qsub = [x for x in chosen if "/plain" in x[0] or "cte" in x[0] or x[0].startswith(("merge/", "update/"))]
    if tier == "quick":
        qsub = rnd.sample(qsub, min(len(qsub), 40))
    else:
        qsub = rnd.sample(qsub, min(len(qsub), 90))     # x 3 dialects (sized by wall time)
    for k, st in qsub:
        sql = gen.Renderer().stmt(st)
        slots = list(dict.fromkeys(m.lower() for m in PLACEHOLDER.findall(sql)))
        for d in (["ansi"] if tier == "quick" else ["ansi", "sparksql", "tsql"]):
            obs.append(TwinOb("quote", k, st, d, quote_slots(sql, slots, d), 4, seed))
    for name, sql in THREE_PART.items():
        slots = list(dict.fromkeys(m.lower() for m in PLACEHOLDER.findall(sql)))
        for d in ("ansi", "sparksql", "tsql"):
            obs.append(TwinOb("quote", name, None, d, quote_slots(sql, slots, d), 5, seed, sql=sql))
            obs.append(TwinOb("quote_schema_only", name, None, d, quote_slots(sql, [s for s in slots if s[2] == "s"], d), 5, seed, sql=sql))
        obs.append(CaseOb(name, None, "ansi", 5, seed, sql=sql))
    lsub = rnd.sample(chosen, min(len(chosen), 200 if tier == "thorough" else 50))
    # a scalar subquery inside an expression is re-analysed from its TEXT: layout noise inside it always takes part
    lsub = lsub + [x for x in tpl if "scalar" in x[0] and x not in lsub]
    for k, st in lsub:
        sql = gen.Renderer().stmt(st)
        obs.append(TwinOb("layout", k, st, "ansi", noisy(sql), 3, seed))
    return obs
