"""
C09  Dialects and both parsers agree on core SQL.

Per corpus statement: parsed under ansi and under k other installed sqlfluff dialects that accept it, all trees
symbolised with the SAME free names, the real extractors run on each; assertion: identical sources, targets,
intermediates and column pairs for all names.  (Agreement is not correctness - C01/C02 own that - but a dialect whose
grammar yields a differently shaped tree on which an extractor goes blind shows up here.)
The legacy non-validating analyzer leg: see the `legacy/` obligations (table lineage only, as the property words it).
"""
from __future__ import annotations

import random

from checks import corpus, gen
from checks.tpl import StmtOb, choose_free, make_names, reentrant_slots, validity_assumptions
from lx.check import Verdict
from lx.engine import HarnessError
from lx.lifted import LiftedScript, dump_runner

PID = "C09"
ALL_DIALECTS = ["athena", "bigquery", "clickhouse", "databricks", "db2", "duckdb", "exasol", "greenplum", "hive", "impala", "mariadb",
                "materialize", "mysql", "oracle", "postgres", "redshift", "snowflake", "soql", "sparksql", "sqlite", "starrocks",
                "teradata", "trino", "tsql", "vertica"]
FAMILIES = [["postgres", "redshift", "greenplum", "duckdb", "materialize", "vertica"],
            ["sparksql", "databricks", "hive", "athena", "trino", "impala"],
            ["tsql", "snowflake", "bigquery", "oracle", "db2", "teradata", "exasol"],
            ["mysql", "mariadb", "sqlite", "clickhouse", "starrocks", "soql"]]
BOUNDS = ("corpus of checks/corpus.py x ansi vs 4 seeded other dialects per statement (quick, seeded third of the corpus; thorough: every "
          "statement vs 6 seeded dialects, 40 seeded /plain INSERTs vs ALL 25 other dialects); up to 4 free names (2 characters); a dialect that "
          "rejects the placeholder text is skipped for that statement (acceptance is re-checked on every replayed witness)")
STUBS = ["sqllineage.runner.split / SqlFluffLineageAnalyzer._list_specific_statement_segment (parser boundary), one tree per dialect"]
ASSUMPTIONS = ["SQL validity assumptions of C08", "identifier quoting is not varied here (C16 does, per dialect)"]


class DialectOb(StmtOb):
    def __init__(self, key, st, dialects, budget=4, seed=0):
        super().__init__(key, st, "ansi")
        self.dialects = list(dialects)
        cand = [x for x in self.slots if x not in reentrant_slots(st)]
        self.free = choose_free(cand, self.free_kinds, budget, ("t", "a"), "c09/%s/%s" % (seed, key))
        self.key = "dialects/%s/%s" % (key, "+".join(self.dialects))

    def names(self, prefix="n"):
        return make_names(self.slots, self.free_kinds, 2, prefix=prefix, free_slots=self.free)

    def prepare(self):
        from sqllineage.exceptions import SQLLineageException

        self.script = LiftedScript([self.sql], "ansi")
        self.others = {}
        self.rejected = []
        for d in self.dialects:
            try:
                self.others[d] = LiftedScript([self.sql], d)
            except (SQLLineageException, HarnessError) as e:
                self.rejected.append(d)

    def describe(self):
        return {"key": self.key, "template": self.sql, "dialects": self.dialects}

    def region(self, d, names, base, other):
        """recorded dialect-shape findings: (dialect, statement feature, recorded way of being wrong)"""
        from lx.lifted import set_eq

        st, key = self.st, self.tkey
        same = lambda k: set_eq(getattr(base, k), getattr(other, k))
        subset = lambda k: all(any(bool(x == y) if not isinstance(x, tuple) else (bool(x[0] == y[0]) and bool(x[1] == y[1]))
                                   for y in getattr(base, k)) for x in getattr(other, k))
        if d == "exasol" and st.kind == "view" and same("sources") and not other.targets and not other.pairs:
            return "C09-exasol-create-view-target-lost"
        if d == "clickhouse" and ("where_in" in key or "where_exists" in key) and same("targets") and subset("sources") and subset("pairs"):
            return "C09-clickhouse-where-subquery-tables-lost"
        if d in ("tsql", "clickhouse") and st.kind == "view" and st.cols and same("sources") and same("targets"):
            return "C09-tsql-view-column-list-ignored"
        if d in ("tsql", "sqlite") and st.kind == "update" and same("sources") and same("targets") and not other.pairs:
            return "C09-update-from-column-pairs-lost"
        if d == "tsql" and st.kind == "merge" and same("sources") and same("targets") and not other.pairs:
            return "C09-tsql-merge-column-pairs-lost"
        if d in ("athena", "databricks", "trino") and st.kind == "merge" and same("sources") and same("targets") and subset("pairs"):
            return "C09-merge-insert-clause-pairs-lost"
        return None

    def body(self):
        names = self.names()
        validity_assumptions(self.st, self.val(names))
        base = dump_runner(self.script.runner(names))
        bads = []
        for d, sc in self.others.items():
            try:
                other = dump_runner(sc.runner(names))
            except Exception as e:   # an exception under one dialect only is a disagreement as well
                from sqllineage.exceptions import SQLLineageException

                if isinstance(e, SQLLineageException):
                    bads.append((d, None, None))
                    continue
                raise
            if not self.compare(base, other):
                bads.append((d, other, self.region(d, names, base, other)))
        # a disagreement outside every recorded finding is reported first; a recorded one must not mask it
        bads.sort(key=lambda x: x[2] is not None)
        bad = (bads[0][0], bads[0][1]) if bads else None
        finding = bads[0][2] if bads else None
        return Verdict(bad is None, {"names": names, "lifted": base, "expected": bad[1] if bad and bad[1] is not None else base,
                                     "extra": {"dialect": bad[0] if bad else None, "accepted": list(self.others), "rejected": self.rejected}},
                       finding)

    def replay(self, conc, verdict_ok):
        from lx import replay as R

        r0 = R.run_real(conc["sql"], "ansi")
        if not r0.get("ok"):
            return {"real_ok": False, "lifted_matches": False, "detail": {"ansi": r0.get("error"), "m": r0.get("message")}}
        lm = R.same_dump(r0, conc["lifted"])
        ds = conc["extra"]["accepted"] if verdict_ok else [conc["extra"]["dialect"]]
        for d in ds:
            r = R.run_real(conc["sql"], d)
            if not r.get("ok"):
                return {"real_ok": False, "lifted_matches": lm and not verdict_ok, "detail": {"dialect": d, "error": r.get("error"), "m": (r.get("message") or "")[:200]}}
            if not R.same_dump(r, r0):
                pick = lambda x: {k: x[k] for k in ("sources", "targets", "intermediates", "pairs")}
                return {"real_ok": False, "lifted_matches": lm and (verdict_ok or R.same_dump(r, conc["expected"])),
                        "detail": {"dialect": d, "ansi": pick(r0), d: pick(r)}}
        return {"real_ok": True, "lifted_matches": lm, "detail": {"dialects": ds}}


class LegacyOb(StmtOb):
    """the legacy non-validating (sqlparse) analyzer reports the same TABLE lineage as the sqlfluff analyzer under ansi"""

    fields = ("sources", "targets", "intermediates")

    def __init__(self, key, st, budget=4, seed=0):
        super().__init__(key, st, "ansi")
        cand = [x for x in self.slots if x not in reentrant_slots(st)]
        self.free = choose_free(cand, self.free_kinds, budget, ("t", "a"), "c09l/%s/%s" % (seed, key))
        self.key = "legacy/%s" % key

    def names(self, prefix="n"):
        return make_names(self.slots, self.free_kinds, 2, prefix=prefix, free_slots=self.free)

    def prepare(self):
        from lx.legacy import LegacyScript

        self.script = LiftedScript([self.sql], "ansi")
        self.legacy = LegacyScript([self.sql])

    def region(self, names, base, other):
        from lx.lifted import set_eq

        key = self.tkey
        same = lambda k: set_eq(getattr(base, k), getattr(other, k))
        subset = lambda k: all(any(bool(x == y) for y in getattr(base, k)) for x in getattr(other, k))
        if "mixed_comma" in key and same("targets") and subset("sources"):
            return "C09-legacy-mixed-comma-join-loses-table"
        if "scalar_in_having" in key and same("targets") and subset("sources"):
            return "C09-legacy-having-subquery-tables-lost"
        if "paren_right_derived" in key and same("targets") and subset("sources"):
            return "C09-legacy-derived-table-in-parenthesized-join-lost"
        return None

    def body(self):
        names = self.names()
        validity_assumptions(self.st, self.val(names))
        base = dump_runner(self.script.runner(names))
        other = dump_runner(self.legacy.runner(names))
        ok = self.compare(other, base)
        return self.verdict(names, other, base, ok=ok, finding=None if ok else self.region(names, base, other))

    def replay(self, conc, verdict_ok):
        from lx import replay as R

        r0 = R.run_real(conc["sql"], "ansi")
        r1 = R.run_real(conc["sql"], "non-validating")
        if not (r0.get("ok") and r1.get("ok")):
            return {"real_ok": False, "lifted_matches": False, "detail": {"ansi": r0.get("error"), "legacy": r1.get("error"), "m": (r1.get("message") or r0.get("message") or "")[:200]}}
        lm = R.same_dump(r1, conc["lifted"], self.fields) and R.same_dump(r0, conc["expected"], self.fields)
        pick = lambda x: {k: x[k] for k in self.fields}
        return {"real_ok": R.same_dump(r0, r1, self.fields), "lifted_matches": lm, "detail": {"ansi": pick(r0), "legacy": pick(r1)}}


def extra_templates():
    """statements kept out of the shared corpus (so that the other checks' seeded samples stay what they are): a comparison whose
    BOTH operands are scalar subqueries, in WHERE, alone and next to an IN subquery"""
    from checks.corpus import Alloc, q_plain, q_where_in, stmt_of
    from checks.gen import Col, Func, Item, J, Sel, Tab

    out = []
    for name, shape, with_in in (("extra/where_cmp_two_scalars/single", "single", False), ("extra/where_cmp_two_scalars/join_on", "join_on", False),
                                 ("extra/where_cmp_two_scalars_and_in/single", "single", True)):
        a = Alloc()
        q = q_where_in(a, shape) if with_in else q_plain(a, shape)
        q.where_cmp = (Sel([Item(Func("max", [Col(0, "cc")]))], [J("first", Tab(a.t()))]),
                       Sel([Item(Func("max", [Col(0, "cd")]))], [J("first", Tab(a.t()))]))
        out.append((name, stmt_of("insert", a, q)))
        a = Alloc()
        q = q_plain(a, shape)
        q.where_cmp = (Sel([Item(Func("max", [Col(0, "cc")]))], [J("first", Tab(a.t()))]),
                       Sel([Item(Func("max", [Col(0, "cd")]))], [J("first", Tab(a.t()))]))
        out.append((name.replace("extra/", "extra/bare_"), stmt_of("bare", a, q)))
    return out


def obligations(tier, seed):
    rnd = random.Random("c09/%s" % seed)
    tpl = [(k, st) for k, st in corpus.build(tier, seed) if st.kind not in ("show", "use")]
    obs = []
    for k, st in extra_templates():
        obs.append(LegacyOb(k, st, 4, seed))
        obs.append(DialectOb(k, st, [random.Random(k).choice(f) for f in FAMILIES], 4, seed))
    if tier == "quick":
        sub = [x for x in tpl if "/plain" in x[0] and x[0].startswith("insert/")] + rnd.sample(tpl, len(tpl) // 4)
        seen = set()
        for k, st in sub:
            if k in seen:
                continue
            seen.add(k)
            # one dialect of each grammar family, so that a family-wide tree shape is met by every statement
            ds = [rnd.choice(FAMILIES[0]), rnd.choice(FAMILIES[1]), rnd.choice(FAMILIES[2]), rnd.choice(FAMILIES[3])]
            obs.append(DialectOb(k, st, ds, 4, seed))
        # every statement kind x query form over the two simplest FROM shapes meets EVERY dialect (a form-specific tree shape
        # of one grammar family, e.g. a parenthesised CTAS query under the postgres family, is then certainly met)
        for k, st in tpl:
            parts = k.split("/")
            if len(parts) >= 3 and parts[1] in ("single", "join_on") and k not in seen:
                seen.add(k)
                obs.append(DialectOb(k, st, ALL_DIALECTS, 2, seed))
        lsub = [x for x in tpl if "/plain" in x[0] and x[0].startswith(("insert/", "bare/"))] + rnd.sample(tpl, len(tpl) // 5)
        seen = set()
        for k, st in lsub:
            if k not in seen and st.kind not in ("drop_view",):
                seen.add(k)
                obs.append(LegacyOb(k, st, 4, seed))
    else:
        # sized by wall time: the legacy leg and 6 seeded dialects on every statement; all 25 dialects on the /plain INSERTs
        obs += [LegacyOb(k, st, 3 if k.startswith("rand/") else 5, seed) for k, st in tpl]
        for k, st in tpl:
            obs.append(DialectOb(k, st, rnd.sample(ALL_DIALECTS, 6), 3 if k.startswith("rand/") else 4, seed))
        plain = [(k, st) for k, st in tpl if "/plain" in k and k.startswith("insert/")]
        for k, st in rnd.sample(plain, min(len(plain), 40)):
            obs.append(DialectOb(k, st, ALL_DIALECTS, 3, seed))
    return obs
