"""
C03  Script summary roles follow from per-statement reads and writes.

No parser involved: histories are built with the public holder API (StatementLineageHolder.add_read /
add_write / add_drop / add_rename) over Table(<symbolic 1-character name over {a,b,c}>) - THE 3-table
universe, every read-set / write / drop / rename instance being one equality pattern the solver
enumerates.  The real SQLLineageHolder.of and the role properties run; the oracle is the property's own
definition, evaluated over the same symbolic names.  Harness instance = sequence of statement shapes.
Witnesses are rendered to real SQL and replayed through LineageRunner on the unmodified library.
"""
from __future__ import annotations

import itertools
import random

from lx.check import Obligation, Verdict
from lx.engine import SymStr, eng, sym_value
from lx.lifted import TWIN, dedupe, set_eq, twin_lists

PID = "C03"
BOUNDS = ("histories of up to 2 statements with read sets of up to 3 tables, and of 3 statements with read sets of up to 2 "
          "(quick: a seeded third of the 3-statement shape sequences; thorough: all, plus seeded 4-statement sequences with "
          "read sets of up to 1), table names symbolic over the 3-table universe {a,b,c}; statement = DML(read slots, at most "
          "one write) | DROP t | RENAME x TO y; DROP/RENAME obligations as worded by the property (RENAME: y fresh, x's "
          "lineage from statements that read and write other tables)")
STUBS = []
ASSUMPTIONS = ["a RENAME whose new name already exists in the script, or whose old name has self/source-only/target-only "
               "lineage, is only required to make the old name disappear",
               "multi-pair RENAME statements are covered by C11 (set order)"]

D = "<default>."


def shapes(max_reads):
    out = []
    for nr in range(0, max_reads + 1):
        for w in (0, 1):
            if nr == 0 and w == 0:
                continue
            out.append(("dml", nr, w))
    return out


def render_shape(sh):
    return {"dml": lambda: "dml(r%d,w%d)" % (sh[1], sh[2]), "drop": lambda: "drop", "rename": lambda: "rename"}[sh[0]]()


class Spec:
    """the property's definition, as an abstract interpreter over the history"""

    def __init__(self):
        self.nodes, self.edges, self.src_only, self.tgt_only, self.touched = [], [], [], [], []

    @staticmethod
    def has(xs, x):
        return any(bool(x == y) for y in xs)

    def add(self, xs, x):
        if not self.has(xs, x):
            xs.append(x)

    def rm(self, xs, x):
        xs[:] = [y for y in xs if not bool(x == y)]

    def dml(self, reads, write):
        for r in reads:
            self.add(self.nodes, r)
            self.add(self.touched, r)
        if write is not None:
            self.add(self.nodes, write)
        if reads and write is None:
            for r in reads:
                self.add(self.src_only, r)
        elif write is not None and not reads:
            self.add(self.tgt_only, write)
        else:
            for r in reads:
                if not any(bool(r == a) and bool(write == b) for a, b in self.edges):
                    self.edges.append((r, write))
            self.add(self.touched, write)

    def drop(self, t):
        # removed only if nothing was ever read from it or wired to it; other tables undisturbed
        if self.has(self.nodes, t) and not self.has(self.touched, t):
            for xs in (self.nodes, self.src_only, self.tgt_only):
                self.rm(xs, t)

    def rename(self, x, y):
        # y takes x's place (precondition checked by the harness: y fresh, x's lineage from read-and-write statements)
        self.edges = [((y if bool(a == x) else a), (y if bool(b == x) else b)) for a, b in self.edges]
        for xs in (self.nodes, self.src_only, self.tgt_only, self.touched):
            if self.has(xs, x):
                self.rm(xs, x)
                self.add(xs, y)

    def roles(self):
        has_in = lambda t: any(bool(b == t) for a, b in self.edges)
        has_out = lambda t: any(bool(a == t) for a, b in self.edges)
        selfloop = lambda t: any(bool(a == t) and bool(b == t) for a, b in self.edges)
        src, tgt, mid = [], [], []
        for t in self.nodes:
            i, o, s = has_in(t), has_out(t), selfloop(t)
            if (o and not i) or self.has(self.src_only, t) or s:
                src.append(t)
            if (i and not o) or self.has(self.tgt_only, t) or s:
                tgt.append(t)
            if i and o and not s:
                mid.append(t)
        return src, tgt, mid


class HistoryOb(Obligation):
    max_paths = 200000
    budget_s = 1500

    def __init__(self, seq):
        self.seq = seq
        self.key = "hist/" + "+".join(render_shape(s) for s in seq)

    def describe(self):
        return {"key": self.key, "shapes": [render_shape(s) for s in self.seq]}

    def body(self):
        from sqllineage.core.holders import SQLLineageHolder, StatementLineageHolder
        from sqllineage.core.metadata.dummy import DummyMetaDataProvider
        from sqllineage.core.models import Table

        name = lambda tag: SymStr.var(tag, 1, "abc")
        spec = Spec()
        holders, hist = [], []
        skip = None
        for i, sh in enumerate(self.seq):
            h = StatementLineageHolder()
            if sh[0] == "dml":
                reads = [name("s%dr%d" % (i, j)) for j in range(sh[1])]
                write = name("s%dw" % i) if sh[2] else None
                for r in reads:
                    h.add_read(Table(r))
                if write is not None:
                    h.add_write(Table(write))
                spec.dml(dedupe(reads), write)
                hist.append(("dml", reads, write))
            elif sh[0] == "drop":
                t = name("s%dt" % i)
                h.add_drop(Table(t))
                spec.drop(t)
                hist.append(("drop", t))
            else:
                x, y = name("s%dx" % i), name("s%dy" % i)
                # the property's RENAME obligation: y does not occur in the script so far, x differs from y, and x's
                # lineage comes from statements that both read and write OTHER tables (no self-loop, no -only tag)
                pre = (not bool(x == y)) and not Spec.has(spec.nodes, y) and not Spec.has(spec.src_only, x) \
                    and not Spec.has(spec.tgt_only, x) and not any(bool(a == x) and bool(b == x) for a, b in spec.edges)
                if not pre:
                    skip = "rename outside the specified precondition"
                h.add_rename(Table(x), Table(y))
                spec.rename(x, y)
                hist.append(("rename", x, y))
            holders.append(h)
        if skip:
            # unspecified case: only "x disappears" is required (when x != y); checked below
            pass
        res = SQLLineageHolder.of(DummyMetaDataProvider(), *holders)
        got = ([t.raw_name for t in res.source_tables], [t.raw_name for t in res.target_tables],
               [t.raw_name for t in res.intermediate_tables])
        got = twin_lists(*got)
        want = spec.roles()
        if skip:
            # x must be gone from every role after its rename (x != y), nothing more is specified
            ok = True
            last = [h for h in hist if h[0] == "rename"][-1]
            if self.seq[-1][0] == "rename" and not bool(last[1] == last[2]):
                ok = not any(Spec.has(g, last[1]) for g in got)
            TWIN["n"] = 0     # (sensitivity twin: the roles are not compared on this path)
            return Verdict(ok, {"hist": hist, "got": got, "want": None, "note": skip}, nontrivial=False)
        ok = all(set_eq(g, w) for g, w in zip(got, want))
        return Verdict(ok, {"hist": hist, "got": got, "want": want})

    def concretise(self, verdict, model):
        d = sym_value(verdict.data, model)
        d["sql"] = render_sql(d["hist"])
        return d

    def replay(self, conc, verdict_ok):
        """three concrete runs on the unmodified library: the same history through the holder API (one of the property's
        observation points, and what the lifted run drove), and two SQL renderings through LineageRunner - one whose
        statements carry column lineage (SELECT *), one whose statements do not (SELECT 1): a defect may need either"""
        from lx import replay as R

        strip = lambda xs: sorted(x.replace(D, "").lstrip(".") for x in xs)
        lifted = tuple(sorted(set(x)) for x in conc["got"])
        want = tuple(sorted(set(x)) for x in conc["want"]) if conc["want"] is not None else None
        last_rename = [h for h in conc["hist"] if h[0] == "rename"][-1] if conc["want"] is None else None

        def judge(real):
            if want is None:
                if conc["hist"][-1][0] == "rename" and last_rename[1] != last_rename[2]:
                    return not any(last_rename[1] in g for g in real)
                return True
            return real == want

        hr = R.run_code(HOLDER_REPLAY % {"hist": repr(conc["hist"])})
        if not hr.get("ok"):
            return {"real_ok": False, "lifted_matches": False, "detail": hr}
        hreal = tuple(strip(x) for x in hr["result"]["roles"])
        verdicts = {"holder-api": judge(hreal)}
        detail = {"holder-api": hreal, "want": conc["want"]}
        for tag, sql in (("sql-star", conc["sql"]), ("sql-const", render_sql(conc["hist"], star=False))):
            rr = R.run_real(sql, "ansi")
            if not rr.get("ok"):
                return {"real_ok": False, "lifted_matches": False, "detail": rr}
            real = (strip(rr["sources"]), strip(rr["targets"]), strip(rr["intermediates"]))
            verdicts[tag] = judge(real)
            detail[tag] = real
        real_ok = all(verdicts.values())
        # fidelity: the lifted run drove the holder API, so that is what it has to agree with; outside the RENAME
        # precondition only "the old name is gone" is specified and compared
        lm = (hreal == lifted) if want is not None else (verdicts["holder-api"] == verdict_ok)
        detail["verdicts"] = verdicts
        return {"real_ok": real_ok, "lifted_matches": lm, "detail": detail}


HOLDER_REPLAY = r'''
from sqllineage.core.holders import SQLLineageHolder, StatementLineageHolder
from sqllineage.core.metadata.dummy import DummyMetaDataProvider
from sqllineage.core.models import Table
hs = []
for h in %(hist)s:
    sh = StatementLineageHolder()
    if h[0] == "dml":
        for r in h[1]: sh.add_read(Table(r))
        if h[2] is not None: sh.add_write(Table(h[2]))
    elif h[0] == "drop":
        sh.add_drop(Table(h[1]))
    else:
        sh.add_rename(Table(h[1]), Table(h[2]))
    hs.append(sh)
res = SQLLineageHolder.of(DummyMetaDataProvider(), *hs)
result = {"roles": [[t.raw_name for t in res.source_tables], [t.raw_name for t in res.target_tables], [t.raw_name for t in res.intermediate_tables]]}
'''


def render_sql(hist, star=True):
    out = []
    what = "*" if star else "1"
    for h in hist:
        if h[0] == "dml":
            _, reads, write = h
            if reads and write is not None:
                out.append("INSERT INTO %s SELECT %s FROM %s" % (write, what, ", ".join(reads)))
            elif reads:
                out.append("SELECT %s FROM %s" % (what, ", ".join(reads)))
            else:
                out.append("INSERT INTO %s VALUES (1)" % write)
        elif h[0] == "drop":
            out.append("DROP TABLE %s" % h[1])
        else:
            out.append("ALTER TABLE %s RENAME TO %s" % (h[1], h[2]))
    return ";\n".join(out)


def obligations(tier, seed):
    rnd = random.Random("c03/%s" % seed)
    obs = []
    s3, s2, s1 = shapes(3), shapes(2), shapes(1)
    dr = [("drop",), ("rename",)]
    # length 1 and 2: exhaustive, read sets up to 3
    for sh in s3 + dr:
        obs.append(HistoryOb([sh]))
    for a in s3 + dr:
        for b in s3 + dr:
            obs.append(HistoryOb([a, b]))
    # length 3: read sets up to 2
    l3 = [list(x) for x in itertools.product(s2 + dr, repeat=3)]
    if tier == "quick":
        l3 = rnd.sample(l3, len(l3) // 6)
    obs += [HistoryOb(x) for x in l3]
    if tier == "thorough":
        l4 = [list(x) for x in itertools.product(s1 + dr, repeat=4)]
        obs += [HistoryOb(x) for x in rnd.sample(l4, min(len(l4), 250))]
    seen, out = set(), []
    for o in obs:
        if o.key not in seen:
            seen.add(o.key)
            out.append(o)
    return out
