"""
C14  A default schema equals explicit qualification.

Twin templates: the corpus statement with its unqualified tables, analysed under default schema S - set through a
scoped override or through the (stubbed) environment - versus the same statement with every unqualified table
written S.name and no default.  S is a free token: it may equal a qualifier that is already in the statement.
Assertion: equal sources, targets, intermediates, column pairs and exported node ids (both levels); names that
are already qualified are unaffected.  (That the placeholder schema is used uniformly when nothing is configured
is part of C01/C02's expected values.)
"""
from __future__ import annotations

import copy

from checks import corpus, gen
from checks.tpl import StmtOb, choose_free, make_names, reentrant_slots, stmt_queries, from_items, all_withs, validity_assumptions
from lx.check import Verdict
from lx.engine import SymStr
from lx.lifted import LiftedScript, dump_runner, set_eq
from lx.tree import PLACEHOLDER

PID = "C14"
BOUNDS = ("corpus of checks/corpus.py (no-data kinds excluded); S and up to 4 other table/schema/alias names free (3 on the depth-4 random compositions of the thorough tier), "
          "2-character bodies (thorough: S also 1 and 3 characters); mechanisms {scoped override, environment, environment while another key is overridden in scope, scoped override over a different environment value}; dialect ansi "
          "(thorough: + sparksql, tsql, postgres on /plain statements)")
STUBS = ["sqllineage.runner.split / SqlFluffLineageAnalyzer._list_specific_statement_segment (parser boundary)",
         "os.environ as seen by sqllineage.config (environment mechanism)"]
ASSUMPTIONS = ["SQL validity assumptions of C08; no CTE name equals an unqualified base table (qualifying it would change its meaning)"]

SSLOT = "zqs9"


def qualify(st):
    """every unqualified base-table reference (not a CTE reference) gets the schema slot"""
    st = copy.deepcopy(st)
    ctes = set()
    for q in stmt_queries(st):
        for w in all_withs(q):
            ctes.update(n for n, _ in w.ctes)
    for q in stmt_queries(st):
        for s, j in from_items(q):
            it = j.item
            if isinstance(it, gen.Tab) and it.schema is None and it.name not in ctes:
                it.schema = SSLOT
    if st.target is not None and st.target.schema is None:
        st.target.schema = SSLOT
    src = st.extra.get("src") if st.extra else None
    if isinstance(src, gen.Tab) and src.schema is None:
        src.schema = SSLOT
    if st.extra.get("to") is not None and st.extra["to"].schema is None:
        st.extra["to"].schema = SSLOT
    return st


class DefaultSchemaOb(StmtOb):
    def __init__(self, key, st, dialect="ansi", mech="override", budget=4, seed=0, slen=2):
        super().__init__(key, st, dialect)
        self.mech, self.slen = mech, slen
        self.st2 = qualify(st)
        self.sql2 = gen.Renderer().stmt(self.st2)
        cand = [x for x in self.slots if x not in reentrant_slots(st)]
        self.free = choose_free(cand, ("t", "s", "a", "d", "c"), budget, ("s", "t"), "c14/%s/%s" % (seed, key))
        self.slots2 = list(dict.fromkeys(self.slots + [SSLOT]))
        self.key = "%s/%s/S%d@%s" % (mech, key, slen, dialect)

    def prepare(self):
        self.script = LiftedScript([self.sql], self.dialect)
        self.script2 = LiftedScript([self.sql2], self.dialect)

    def names(self, prefix="n"):
        n = make_names(self.slots2, ("t", "s", "a", "d", "c"), 2, lengths={SSLOT: self.slen}, prefix=prefix,
                       free_slots=set(self.free) | {SSLOT})
        return n

    def run_default(self, names, S):
        import sqllineage.config as cfgmod
        from sqllineage.config import SQLLineageConfig

        if self.mech == "override":
            with SQLLineageConfig(DEFAULT_SCHEMA=S):
                return self.dump(self.script.runner(names))
        if self.mech == "override_read_after":
            # analysed inside the scope, every result read after the scope has ended: what was computed under S stays under S
            with SQLLineageConfig(DEFAULT_SCHEMA=S):
                lr = self.script.runner(names)
                lr.source_tables
            return self.dump(lr)
        import os as real_os

        from checks.c15 import EnvShim

        old = cfgmod.os
        # env: the environment alone; env_in_scope: the environment while a scoped override of ANOTHER key is active;
        # override_over_env: the environment names another schema and the scoped override wins
        envS = SymStr.const("envother") if self.mech == "override_over_env" else S
        cfgmod.os = EnvShim(real_os, {"SQLLINEAGE_DEFAULT_SCHEMA": envS})
        try:
            if self.mech == "env_in_scope":
                with SQLLineageConfig(LATERAL_COLUMN_ALIAS_REFERENCE=False):
                    return self.dump(self.script.runner(names))
            if self.mech == "override_over_env":
                with SQLLineageConfig(DEFAULT_SCHEMA=S):
                    return self.dump(self.script.runner(names))
            return self.dump(self.script.runner(names))
        finally:
            cfgmod.os = old

    @staticmethod
    def dump(lr):
        d = dump_runner(lr)
        # exported node ids; columns of ANONYMOUS subqueries are named after a hash of the subquery's text, which
        # legitimately differs between the two spellings: left out
        anon = lambda i: bool(SymStr.const(i).startswith("subquery_"))
        d.extra["cyto_table"] = [n["data"]["id"] for n in lr.to_cytoscape() if "source" not in n["data"]]
        d.extra["cyto_column"] = [n["data"]["id"] for n in lr.to_cytoscape("column") if "source" not in n["data"] and not anon(n["data"]["id"])]
        return d

    def body(self):
        names = self.names()
        validity_assumptions(self.st, self.val(names))
        S = names[SSLOT]
        d1 = self.run_default(names, S)
        d2 = self.dump(self.script2.runner(names))
        ok = self.compare(d1, d2) and set_eq(d1.extra["cyto_table"], d2.extra["cyto_table"]) \
            and set_eq(d1.extra["cyto_column"], d2.extra["cyto_column"])
        return self.verdict(names, d1, d2, ok=ok)

    def concretise(self, verdict, model):
        out = super().concretise(verdict, model)
        out["sql2"] = self.script2.render(out["names"])
        out["S"] = out["names"][SSLOT]
        return out

    def replay(self, conc, verdict_ok):
        from lx import replay as R

        if self.mech == "override":
            r1 = R.run_real(conc["sql"], self.dialect, config={"DEFAULT_SCHEMA": conc["S"]}, cyto=True)
        elif self.mech == "override_read_after":
            r1 = R.run_real(conc["sql"], self.dialect, config={"DEFAULT_SCHEMA": conc["S"]}, cyto=True, read_after_scope=True)
        elif self.mech == "env_in_scope":
            r1 = R.run_real(conc["sql"], self.dialect, env={"SQLLINEAGE_DEFAULT_SCHEMA": conc["S"]},
                            config={"LATERAL_COLUMN_ALIAS_REFERENCE": False}, cyto=True)
        elif self.mech == "override_over_env":
            r1 = R.run_real(conc["sql"], self.dialect, env={"SQLLINEAGE_DEFAULT_SCHEMA": "envother"},
                            config={"DEFAULT_SCHEMA": conc["S"]}, cyto=True)
        else:
            r1 = R.run_real(conc["sql"], self.dialect, env={"SQLLINEAGE_DEFAULT_SCHEMA": conc["S"]}, cyto=True)
        r2 = R.run_real(conc["sql2"], self.dialect, cyto=True)
        if not (r1.get("ok") and r2.get("ok")):
            return {"real_ok": False, "lifted_matches": False, "detail": {"r1": r1.get("error"), "r2": r2.get("error"),
                                                                           "m1": r1.get("message"), "m2": r2.get("message")}}
        ids = lambda r, k: sorted(n["data"]["id"] for n in r[k] if "source" not in n["data"] and not n["data"]["id"].startswith("subquery_"))
        lm = R.same_dump(r1, conc["lifted"]) and R.same_dump(r2, conc["expected"])
        ro = R.same_dump(r1, r2) and ids(r1, "cyto_table") == ids(r2, "cyto_table") and ids(r1, "cyto_column") == ids(r2, "cyto_column")
        pick = lambda r: {k: r[k] for k in ("sources", "targets", "intermediates", "pairs")}
        return {"real_ok": ro, "lifted_matches": lm, "detail": {"under_default": pick(r1), "qualified": pick(r2)}}


# names quoted AS A WHOLE with a dot inside (bigquery / mysql / sparksql): already qualified, hence unaffected by S; the
# unqualified table next to them takes S.  (sql under the default, its explicitly qualified twin)
RAW_TWINS = {
    "quoted_dotted_source/sparksql": ("sparksql", "INSERT INTO zqt1 SELECT ca FROM `zqs1.zqt2`", "INSERT INTO zqs9.zqt1 SELECT ca FROM `zqs1.zqt2`"),
    "quoted_dotted_target/bigquery": ("bigquery", "INSERT INTO `zqs1.zqt1` SELECT ca FROM zqt2", "INSERT INTO `zqs1.zqt1` SELECT ca FROM zqs9.zqt2"),
    "quoted_dotted_join/mysql": ("mysql", "INSERT INTO zqt1 SELECT a.ca, b.cb FROM `zqs1.zqt2` AS a JOIN zqt3 AS b ON a.id = b.id",
                                 "INSERT INTO zqs9.zqt1 SELECT a.ca, b.cb FROM `zqs1.zqt2` AS a JOIN zqs9.zqt3 AS b ON a.id = b.id"),
    "three_part_quoted_dotted/bigquery": ("bigquery", "INSERT INTO zqt1 SELECT ca FROM `zqs1.zqs2.zqt2`", "INSERT INTO zqs9.zqt1 SELECT ca FROM `zqs1.zqs2.zqt2`"),
    "parts_quoted_separately/sparksql": ("sparksql", "INSERT INTO zqt1 SELECT ca FROM `zqs1`.`zqt2`", "INSERT INTO zqs9.zqt1 SELECT ca FROM `zqs1`.`zqt2`"),
}


class RawDefaultSchemaOb(DefaultSchemaOb):
    def __init__(self, name, dialect, sql, sql2, mech="override", legacy=False):
        self.tkey, self.st, self.dialect, self.quotes = name, None, dialect, {}
        self.mech, self.slen, self.legacy = mech, 2, legacy
        self.sql, self.sql2, self.stmts = sql, sql2, [sql]
        self.slots = list(dict.fromkeys(m.lower() for m in PLACEHOLDER.findall(sql)))
        self.slots2 = list(dict.fromkeys(self.slots + [SSLOT]))
        self.free = set(self.slots)
        self.key = "%s%s/raw/%s" % ("legacy/" if legacy else "", mech, name)

    def prepare(self):
        if self.legacy:
            from lx.legacy import LegacyScript

            self.dialect = "non-validating"
            self.script, self.script2 = LegacyScript([self.sql]), LegacyScript([self.sql2])
        else:
            DefaultSchemaOb.prepare(self)

    def body(self):
        from sqllineage.exceptions import SQLLineageException
        from lx.lifted import Dump

        names = self.names()
        S = names[SSLOT]
        d2 = self.dump(self.script2.runner(names))
        try:
            d1 = self.run_default(names, S)
        except SQLLineageException as e:
            # accepted when qualified explicitly, refused under the default: a difference like any other
            return self.verdict(names, Dump([], [], [], [], {"raised": type(e).__name__}), d2, ok=False)
        ok = self.compare(d1, d2) and set_eq(d1.extra["cyto_table"], d2.extra["cyto_table"]) \
            and set_eq(d1.extra["cyto_column"], d2.extra["cyto_column"])
        return self.verdict(names, d1, d2, ok=ok)


class LegacyDefaultSchemaOb(DefaultSchemaOb):
    """the same twin under the legacy non-validating (sqlparse) analyzer"""

    def __init__(self, key, st, mech="override", budget=4, seed=0):
        super().__init__(key, st, "ansi", mech, budget, seed)
        self.dialect = "non-validating"
        self.key = "legacy/" + self.key.replace("@ansi", "")

    def prepare(self):
        from lx.legacy import LegacyScript

        self.script = LegacyScript([self.sql])
        self.script2 = LegacyScript([self.sql2])


def obligations(tier, seed):
    import random

    rnd = random.Random("c14/%s" % seed)
    # statements with a scalar subquery as a select item are left out: the library re-enters on the subquery's TEXT, which
    # would contain the symbolic S in the qualified twin (C01/C02 cover them with concrete names inside the subquery)
    tpl = [(k, st) for k, st in corpus.build(tier, seed) if st.kind not in ("show", "use") and not reentrant_slots(st)]
    obs = []
    # (measured: a twin instance costs two full runs plus both exports per path; 5-6 free names on every template ran past an
    # hour, so the thorough tier widens the template set and the mechanism instances, not the number of free names)
    budget = 4
    for k, st in tpl:
        obs.append(DefaultSchemaOb(k, st, "ansi", "override", 3 if k.startswith("rand/") else budget, seed))
    if tier == "quick":
        keep = [o for o in obs if ("/plain" in o.key and "/insert/" in o.key) or "merge" in o.key or "update" in o.key or "nodata" in o.key
                or "schema" in o.key]
        rest = [o for o in obs if o not in keep and "/plain" not in o.key]
        obs = keep + rnd.sample(rest, len(rest) // 3)
    envs = [DefaultSchemaOb(k, st, "ansi", "env", budget, seed) for k, st in tpl if "/plain" in k and k.startswith(("insert/", "ctas/"))]
    obs += rnd.sample(envs, len(envs) // 2)
    for mech in ("env_in_scope", "override_over_env", "override_read_after"):
        more = [DefaultSchemaOb(k, st, "ansi", mech, budget, seed) for k, st in tpl if "/plain" in k and k.startswith(("insert/", "ctas/"))]
        obs += rnd.sample(more, max(4, len(more) // (3 if tier == "thorough" else 6)))
    # the legacy analyzer creates its tables elsewhere (sqlparse/models.py): same twin there
    lsub = [(k, st) for k, st in tpl if ("/plain" in k and k.startswith("insert/") and "paren" not in k and "mixed" not in k) or k.startswith(("update/", "merge/table"))]
    for k, st in (lsub if tier == "thorough" else rnd.sample(lsub, min(len(lsub), 16))):
        obs.append(LegacyDefaultSchemaOb(k, st, "override", budget, seed))
    for name, (d, sql, sql2) in RAW_TWINS.items():
        obs.append(RawDefaultSchemaOb(name, d, sql, sql2, "override"))
        obs.append(RawDefaultSchemaOb(name, d, sql, sql2, "env"))
        obs.append(RawDefaultSchemaOb(name, d, sql, sql2, "override", legacy=True))
    if tier == "thorough":
        extras = []
        for k, st in tpl:
            if "/plain" in k and k.startswith("insert/"):
                extras.append(DefaultSchemaOb(k, st, "ansi", "override", 4, seed, slen=1))
                extras.append(DefaultSchemaOb(k, st, "ansi", "override", 4, seed, slen=3))
                for d in ("sparksql", "tsql", "postgres"):
                    extras.append(DefaultSchemaOb(k, st, d, "override", 4, seed))
        obs += rnd.sample(extras, min(len(extras), 60))      # sized by wall time
    return obs
