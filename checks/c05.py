"""
C05  A script is analysed as exactly the sequence of its statements  (reduced scope, see BOUNDS).

split    - the real helpers.split with sqlparse.parse stubbed by a SYMBOLIC list of pieces (each piece: empty /
           comment-only, ';'-only, or a real statement with symbolic text): the result is exactly the real statements,
           in order.
assembly - the real LineageRunner on a script of n<=4 statements (names free, so later statements may read earlier
           targets) versus SQLLineageHolder.of over the same statements analysed ONE BY ONE by fresh runners: equal
           sources, targets, intermediates and (metadata-free) column pairs, and statements() has n entries.  This is
           where a runner that drops the last statement, reorders, duplicates, or lets one statement's analysis leak
           into the next is caught.
tsql     - the same under dialect tsql with TSQL_NO_SEMICOLON (split_tsql + the per-analyzer segment cache), including
           two statements whose text coincides.
NOT claimed: that sqlparse / sqlfluff place the cuts correctly in TEXT (semicolons inside literals or comments, ';;',
newline-only T-SQL batches): that is decided by regex lexers on concrete text, which this family cannot encode; the only
contact with it is the replay of witnesses (sampling, reported as such).
"""
from __future__ import annotations

from checks.c15 import fork_bool, fork_choice
from checks.common import TemplateObligation
from lx.check import Obligation, Verdict
from lx.engine import SymStr, Unsupported, sym_value
from lx.lifted import Dump, LiftedScript, dump_runner, set_eq, twin_lists
from lx.tree import Names

PID = "C05"
BOUNDS = ("split kernel: up to 5 pieces, each of 3 kinds, statement texts symbolic (3 characters); assembly: scripts of 2-4 statements from a "
          "pool of 9 (INSERT, CTAS, bare SELECT, SELECT INTO, DROP, ALTER..RENAME, INSERT VALUES, CREATE VIEW, UPDATE) under ansi / postgres / "
          "tsql, all table names free (2 characters), also with the first statement's text recurring after a RENAME / DROP; tsql no-semicolon mode with 2-3 "
          "statements incl. textually equal ones, separated by line breaks, GO batch separators or semicolons at chosen positions (ROOT mode: the real statement "
          "listing on the whole script's parse tree). The placement "
          "of cuts in text is NOT claimed")
STUBS = ["sqlparse.parse as seen by helpers.split (split kernel only) -> symbolic list of statement stubs (token_first / ttype / value API)",
         "sqllineage.runner.split / SqlFluffLineageAnalyzer._list_specific_statement_segment (parser boundary) elsewhere; in T-SQL no-semicolon mode only "
         "sqlfluff's Linter as seen by the analyzer module is replaced (it hands out the pre-parsed, symbolised root segment of the whole script)"]
ASSUMPTIONS = ["sqlparse cuts text at top-level ';' and sqlfluff splits T-SQL batches as parsed for the placeholder text",
               "statement holders of single-statement runs are read through runner._stmt_holders"]


class _Tok:
    def __init__(self, ttype, value):
        self.ttype, self.value = ttype, value
        self.normalized = value
        self.is_keyword = False

    def match(self, ttype, values, regex=False):
        """sqlparse.sql.Token.match for the cases a splitter can ask about"""
        if self.ttype is not ttype and not (self.ttype is not None and self.ttype in ttype):
            return False
        if values is None:
            return True
        if isinstance(values, str):
            values = (values,)
        return any(bool(self.value == v) for v in values)


class _Stmt:
    def __init__(self, kind, text):
        self.kind, self.value = kind, text

    def token_first(self, skip_ws=True, skip_cm=False, **kw):
        from sqlparse.tokens import Comment, Keyword, Punctuation

        if self.kind == "empty":                      # comment-only piece
            return None if skip_cm else _Tok(Comment.Single, SymStr.const("-- c;"))
        if self.kind == "semicolon":
            return _Tok(Punctuation, SymStr.const(";"))
        if self.kind == "comment_semicolon":          # a comment, then a stray ';'
            return _Tok(Punctuation, SymStr.const(";")) if skip_cm else _Tok(Comment.Multiline, SymStr.const("/* c */"))
        if self.kind == "comment_stmt" and not skip_cm:   # a comment, then a real statement
            return _Tok(Comment.Multiline, SymStr.const("/* c */"))
        return _Tok(Keyword.DML, SymStr.const("SELECT"))


class SplitKernelOb(Obligation):
    def __init__(self, n):
        self.n = n
        self.key = "split/pieces%d" % n

    def describe(self):
        return {"key": self.key, "pieces": self.n}

    def body(self):
        import sqlparse

        from sqllineage.utils import helpers

        KINDS = ["empty", "semicolon", "stmt", "comment_semicolon", "comment_stmt"]
        kinds = [KINDS[fork_choice("kind%d" % i, len(KINDS))] for i in range(self.n)]
        text = {"semicolon": ";", "empty": "-- c;", "comment_semicolon": "/* c */ ;"}
        # a piece's text agrees with its tokens: a statement piece starts with its first token (after its comment, if any), the
        # rest of its text is free (so a ';' inside a literal or a trailing comment, blanks, quotes are solver cases)
        lead = {"stmt": "SELECT", "comment_stmt": "/* c */ SELECT"}
        pieces = [_Stmt(k, (SymStr.const(lead[k]) + SymStr.var("txt%d" % i, 3, "qz;'- ")) if k in lead else SymStr.const(text[k])) for i, k in enumerate(kinds)]
        real_parse = sqlparse.parse
        sqlparse.parse = lambda sql, *a, **k: list(pieces)
        try:
            got = helpers.split(SymStr.const("<script>"))
        finally:
            sqlparse.parse = real_parse
        (got,) = twin_lists(got, phantom="SELECT 1")
        want = [p.value for p in pieces if p.kind in ("stmt", "comment_stmt")]
        ok = len(got) == len(want) and all(g is w or bool(g == w) for g, w in zip(got, want))
        return Verdict(ok, {"kinds": kinds, "got": got, "want": want})

    def replay(self, conc, verdict_ok):
        # concrete counterpart through the real sqlparse: a script whose pieces are of those kinds
        from lx import replay as R

        parts, want = [], 0
        for i, k in enumerate(conc["kinds"]):
            if k == "stmt":
                parts.append("SELECT c%d FROM t%d;" % (i, i))
                want += 1
            elif k == "comment_stmt":
                parts.append("/* c;%d */ SELECT c%d FROM t%d;" % (i, i, i))
                want += 1
            elif k == "semicolon":
                parts.append(";")
            elif k == "comment_semicolon":
                parts.append("/* done */ ;")
            else:
                parts.append("-- only a comment ; here\n")
        code = "from sqllineage.utils.helpers import split\nr = split(%r)\nresult = {'ok': len(r) == %d, 'got': r}\n" % ("\n".join(parts), want)
        r = R.run_code(code)
        if not r.get("ok"):
            return {"real_ok": False, "lifted_matches": False, "detail": r}
        # the concrete run samples the text-level cut placement too (not claimed): only a lifted/real mismatch on a PASSING
        # kernel path is reported as a fidelity problem when the kinds contain no comment-only piece
        res = r["result"]
        return {"real_ok": res["ok"] or "empty" in conc["kinds"], "lifted_matches": (res["ok"] == verdict_ok) or "empty" in conc["kinds"], "detail": res}


POOL = {
    "insert": "INSERT INTO zqt{w} SELECT ca, cb FROM zqt{r}",
    "insert_join": "INSERT INTO zqt{w} SELECT a.ca, b.cb FROM zqt{r} AS a JOIN zqt{r2} AS b ON a.id = b.id",
    "ctas": "CREATE TABLE zqt{w} AS SELECT ca FROM zqt{r}",
    "view": "CREATE VIEW zqt{w} AS SELECT cb FROM zqt{r}",
    "select": "SELECT ca FROM zqt{r}",
    "select_into": "SELECT ca INTO zqt{w} FROM zqt{r}",
    "values": "INSERT INTO zqt{w} VALUES (1)",
    "drop": "DROP TABLE zqt{w}",
    "rename": "ALTER TABLE zqt{r} RENAME TO zqt{w}",
    "update": "UPDATE zqt{w} SET ca = zqt{r}.cb FROM zqt{r} WHERE zqt{w}.id = zqt{r}.id",
    # metadata-free analysis must not learn from earlier statements: a wildcard / an unqualified column over a join stay
    # what they are on their own even when an earlier statement of the script wrote the table they read
    "insert_star": "INSERT INTO zqt{w} SELECT * FROM zqt{r}",
    "insert_unq_join": "INSERT INTO zqt{w} SELECT ca FROM zqt{r} AS a JOIN zqt{r2} AS b ON a.id = b.id",
}
DIALECT_KINDS = {"ansi": ["insert", "insert_join", "ctas", "view", "select", "values", "drop", "rename", "update", "insert_star", "insert_unq_join"],
                 "postgres": ["insert", "ctas", "select", "select_into", "drop", "values"],
                 "tsql": ["insert", "select", "select_into", "drop", "values"]}


def script_of(kinds):
    out = []
    for i, k in enumerate(kinds):
        out.append(POOL[k].format(w=2 * i + 1, r=2 * i + 2, r2=2 * i + 9))
    return out


class AssemblyOb(TemplateObligation):
    budget = 4

    def __init__(self, kinds, dialect="ansi", tsql_mode=False, same_text=False, go=(), semi=()):
        self.kinds, self.dialect, self.tsql_mode, self.same_text = list(kinds), dialect, tsql_mode, same_text
        self.stmts = script_of(kinds)
        if same_text == "around":
            # p, s0, s1, .., s0: the same text again after the others; neither occurrence is the script's first piece and the
            # script ends with ';', so the two pieces the real splitter cuts are byte-identical too
            self.stmts = ["SELECT ca FROM zqt90"] + self.stmts + self.stmts[:1]
        elif same_text:
            self.stmts = [self.stmts[0]] + self.stmts[:1] + self.stmts[1:]
        # T-SQL no-semicolon mode: statements separated by a line break, or by a GO batch separator at the positions in `go`;
        # the repository's own statement listing walks the parse tree of the whole script (ROOT mode of the lifted runner)
        # `semi`: positions where the statement IS terminated by a semicolon (a script may mix both styles)
        self.seps = [("\nGO\n" if i in go else ";\n" if i in semi else "\n") for i in range(len(self.stmts) - 1)] if tsql_mode else None
        self.key = "%s/%s/%s%s%s" % ("tsql-no-semicolon" if tsql_mode else "assembly", dialect, "+".join(kinds), ("/same-text-" + same_text) if isinstance(same_text, str) else "/same-text" if same_text else "",
                                     (("/go@" + ",".join(map(str, go))) if go else "") + (("/semi@" + ",".join(map(str, semi))) if semi else ""))

    def prepare(self):
        self.script = LiftedScript(self.stmts, self.dialect, seps=self.seps)
        self.singles = [LiftedScript([s], self.dialect) for s in self.stmts]

    def body(self):
        from sqllineage.config import SQLLineageConfig
        from sqllineage.core.holders import SQLLineageHolder
        from sqllineage.core.metadata.dummy import DummyMetaDataProvider

        names = Names(default_len=2)
        import random

        slots = list(self.script.slots)
        random.Random(self.key).shuffle(slots)
        for sl in slots[self.budget:]:
            names.set(sl, "f" + sl[2:])
        if self.tsql_mode:
            with SQLLineageConfig(TSQL_NO_SEMICOLON=True):
                lr = self.script.runner(names, tsql=True)
                whole = dump_runner(lr)
                nst = len(lr.statements())
        else:
            lr = self.script.runner(names)
            whole = dump_runner(lr)
            nst = len(lr.statements())
        holders = []
        for sc in self.singles:
            one = sc.runner(names)
            one.source_tables
            holders += list(one._stmt_holders)
        comb = SQLLineageHolder.of(DummyMetaDataProvider(), *holders)
        exp = Dump([str(t) for t in comb.source_tables], [str(t) for t in comb.target_tables], [str(t) for t in comb.intermediate_tables],
                   [(str(p[0]), str(p[-1])) for p in comb.get_column_lineage()])
        ok = self.compare(whole, exp) and nst == len(self.stmts)
        return self.verdict(names, whole, exp, ok=ok, extra={"statements_reported": nst, "statements": len(self.stmts)})

    def concretise(self, verdict, model):
        out = super().concretise(verdict, model)
        out["stmts"] = [ps.render(out["names"]) for ps in self.script.stmts]
        out["sql"] = self.script.render_script(out["names"]) if self.tsql_mode else ";\n".join(out["stmts"]) + (";" if self.same_text == "around" else "")
        return out

    def replay(self, conc, verdict_ok):
        from lx import replay as R

        r = R.run_code(REPLAY % {"c": repr({"stmts": conc["stmts"], "sql": conc["sql"], "dialect": self.dialect, "tsql": self.tsql_mode})})
        if not r.get("ok"):
            return {"real_ok": False, "lifted_matches": False, "detail": r}
        res = r["result"]
        lm = True
        if conc.get("lifted") is not None and res.get("whole") is not None:
            lm = R.same_dump({"sources": res["whole"][0], "targets": res["whole"][1], "intermediates": res["whole"][2], "pairs": res["whole"][3]}, conc["lifted"])
        return {"real_ok": res["ok"], "lifted_matches": lm and (res["ok"] == verdict_ok), "detail": res}


REPLAY = r'''
import warnings
warnings.simplefilter("ignore")
from sqllineage.runner import LineageRunner
from sqllineage.config import SQLLineageConfig
from sqllineage.core.holders import SQLLineageHolder
from sqllineage.core.metadata.dummy import DummyMetaDataProvider
c = %(c)s
def dump_h(h):
    return (sorted(str(t) for t in h.source_tables), sorted(str(t) for t in h.target_tables), sorted(str(t) for t in h.intermediate_tables),
            sorted([str(p[0]), str(p[-1])] for p in h.get_column_lineage()))
def whole():
    lr = LineageRunner(c["sql"], dialect=c["dialect"])
    lr.source_tables
    return dump_h(lr._sql_holder), len(lr.statements())
if c["tsql"]:
    with SQLLineageConfig(TSQL_NO_SEMICOLON=True): w, n = whole()
else:
    w, n = whole()
hs = []
for s in c["stmts"]:
    one = LineageRunner(s, dialect=c["dialect"]); one.source_tables; hs += list(one._stmt_holders)
e = dump_h(SQLLineageHolder.of(DummyMetaDataProvider(), *hs))
result = {"ok": w == e and n == len(c["stmts"]), "whole": w, "combined": e, "statements_reported": n}
'''


def obligations(tier, seed):
    import itertools
    import random

    rnd = random.Random("c05/%s" % seed)
    obs = [SplitKernelOb(n) for n in ((1, 2, 3, 4) if tier == "quick" else (1, 2, 3, 4, 5))]
    for d, kinds in DIALECT_KINDS.items():
        pairs = list(itertools.product(kinds, repeat=2))
        triples = list(itertools.product(kinds, repeat=3))
        chosen = (rnd.sample(pairs, min(len(pairs), 14 if d == "ansi" else 8)) + rnd.sample(triples, 6 if d == "ansi" else 4)) if tier == "quick" \
            else (pairs + rnd.sample(triples, min(len(triples), 30)) + [tuple(rnd.choice(kinds) for _ in range(4)) for _ in range(6)])
        for ks in chosen:
            obs.append(AssemblyOb(ks, d))
    for ks in [("insert", "insert_star"), ("ctas", "insert_star"), ("ctas", "insert_unq_join"), ("insert", "insert_star", "insert_star")]:
        obs.append(AssemblyOb(ks, "ansi"))
    # the first statement's text once more after an order-sensitive statement (names free: it may rename / drop what was written)
    for ks in [("insert", "rename"), ("insert", "drop"), ("insert_star", "rename"), ("values", "drop")]:
        obs.append(AssemblyOb(ks, "ansi", same_text="around"))
    for ks in [("insert", "select_into"), ("select", "select_into"), ("select_into", "select_into"), ("insert", "drop", "insert"), ("select", "insert", "select_into")]:
        obs.append(AssemblyOb(ks, "tsql", tsql_mode=True))
    for ks, go in [(("insert", "select_into"), (0,)), (("insert", "insert", "select_into"), (0,)), (("insert", "insert", "select_into"), (1,)),
                   (("insert", "select", "insert"), (0, 1))]:
        obs.append(AssemblyOb(ks, "tsql", tsql_mode=True, go=go))
    for ks, semi in [(("insert", "insert", "select_into"), (0,)), (("insert", "select_into", "insert"), (1,))]:
        obs.append(AssemblyOb(ks, "tsql", tsql_mode=True, semi=semi))
    obs.append(AssemblyOb(("insert", "drop"), "tsql", tsql_mode=True, same_text=True))
    obs.append(AssemblyOb(("values", "drop"), "tsql", tsql_mode=True, same_text=True))
    for o in obs:
        if isinstance(o, AssemblyOb):
            # free names per script: 4 quick; thorough 6 for pairs, 5 for longer scripts (measured: 6 free names over 3-4
            # statements is ~1600 paths x 0.5 s with every witness replayed)
            o.budget = 4 if tier == "quick" else (6 if len(o.kinds) <= 2 else 5)
            o.budget_s = 1500
    seen, out = set(), []
    for o in obs:
        if o.key not in seen:
            seen.add(o.key)
            out.append(o)
    return out
