"""
C08  Lineage is invariant under renaming of statement-local names.

One harness instance per corpus statement (x dialect): ALL names free - base tables, schemas, table aliases,
derived-table aliases, CTE names - with no distinctness assumed beyond SQL validity (exposed relation names
of one FROM scope distinct, CTE names of one WITH distinct, no CTE name capturing an unqualified base table).
The twin run has the same tables/schemas but every statement-local name replaced by a fresh constant that
cannot clash.  Assertion: sources, targets, intermediates and end-to-end column pairs are equal - so any
dependence on a local name, in particular a coincidence with a base table's bare name, a schema name, a
sibling scope's alias or another case spelling, is a counterexample.  A second family flips the optional AS.
"""
from __future__ import annotations

from checks import corpus, gen
from checks.tpl import StmtOb, fixed_name, slot_kind, validity_assumptions, variant
from lx.check import Verdict
from lx.engine import SymStr
from lx.lifted import LiftedScript, dump_runner
from lx.tree import PLACEHOLDER

PID = "C08"
BOUNDS = ("corpus of checks/corpus.py (statement kind x FROM shape x query form, nesting <= 2; thorough adds seeded depth-4 "
          "compositions); all table, schema, alias, derived-alias and CTE names free: 2 characters over {q,z,j,Q,Z,J} then "
          "{q,z,j,Q,Z,J,_,0,7} (thorough: also 3 and a mixed 1-3 length vector); column names fixed; dialect ansi (thorough: + "
          "sparksql, postgres, tsql, bigquery, snowflake on the statements they accept)")
STUBS = ["sqllineage.runner.split -> statement handles of the template",
         "SqlFluffLineageAnalyzer._list_specific_statement_segment -> pre-parsed, symbolised tree"]
ASSUMPTIONS = ["SQL validity: exposed relation names of one FROM scope are pairwise distinct; CTE names of one WITH are distinct; "
               "no CTE name equals an unqualified base table name of the statement (capture)",
               "keywords as identifiers are outside the alphabet",
               "sqlfluff yields the same tree shape for every identifier body over the alphabet (validated per replayed witness)"]

LOCAL = ("a", "d", "c")
BUDGET = {"quick": 5, "thorough": 6}   # free names per harness instance (local names first, then a seeded share of the rest)


class RenameOb(StmtOb):
    mode = "rename"

    def __init__(self, key, st, dialect="ansi", mode="rename", length=2, lengths=None, budget=None, seed=0):
        super().__init__(key, st, dialect)
        self.mode, self.length, self.lengths = mode, length, lengths
        from checks.tpl import choose_free

        from checks.tpl import reentrant_slots

        cand = [x for x in self.slots if x not in reentrant_slots(st)]
        self.free = choose_free(cand, self.free_kinds, budget, LOCAL, "c08/%s/%s" % (seed, key))
        self.key = "%s/%s/len%s@%s" % (mode, key, length if not lengths else "mix", dialect)
        if mode == "flip_as":
            self.st2 = variant(st, "flip_as")
            self.sql2 = gen.Renderer().stmt(self.st2)
        else:
            self.st2, self.sql2 = st, self.sql
        self.has_local = any(slot_kind(s) in LOCAL for s in self.slots)

    def prepare(self):
        self.script = LiftedScript([self.sql], self.dialect)
        self.script2 = LiftedScript([self.sql2], self.dialect)

    def names(self, prefix="n"):
        from checks.tpl import make_names

        lens = None
        if self.lengths:
            lens = {s: self.lengths[i % len(self.lengths)] for i, s in enumerate(self.slots)}
        return make_names(self.slots, self.free_kinds, self.length, lengths=lens, prefix=prefix, free_slots=self.free)

    def resolver2(self, names):
        if self.mode == "flip_as":
            return lambda slot, k, leaf, lit: names[slot]
        return lambda slot, k, leaf, lit: SymStr.const(fixed_name(slot)) if slot_kind(slot) in LOCAL else names[slot]

    def body(self):
        names = self.names()
        validity_assumptions(self.st, self.val(names))
        d1 = dump_runner(self.script.runner(names))
        d2 = dump_runner(self.script2.runner(resolve=self.resolver2(names)))
        ok = self.compare(d1, d2)
        finding = None
        if not ok and self.mode == "rename":
            from checks import gen as G
            from checks.tpl import cross_scope_alias_region
            from lx.lifted import set_eq

            o = G.Oracle(names)
            # recorded finding: only column pairs are wrong (tables are right), inside the cross-scope region
            if all(set_eq(getattr(d1, k), getattr(d2, k)) for k in ("sources", "targets", "intermediates")) \
                    and cross_scope_alias_region(self.st, self.val(names), o.tid):
                finding = "C08-alias-equals-name-used-in-other-scope"
        return self.verdict(names, d1, d2, ok=ok, finding=finding)

    def concretise(self, verdict, model):
        out = super().concretise(verdict, model)
        names = out["names"]
        if self.mode == "flip_as":
            out["sql2"] = self.script2.render(names)
        else:
            n2 = {s: (fixed_name(s) if slot_kind(s) in LOCAL else v) for s, v in names.items()}
            out["sql2"] = self.script2.render(n2)
        return out

    def replay(self, conc, verdict_ok):
        from lx import replay as R

        r1 = R.run_real(conc["sql"], self.dialect)
        r2 = R.run_real(conc["sql2"], self.dialect)
        if not (r1.get("ok") and r2.get("ok")):
            return {"real_ok": False, "lifted_matches": False, "detail": {"r1": r1.get("error"), "r2": r2.get("error"),
                                                                           "m1": r1.get("message"), "m2": r2.get("message")}}
        lm = R.same_dump(r1, conc["lifted"]) and R.same_dump(r2, conc["expected"])
        ro = R.same_dump(r1, r2)
        pick = lambda r: {k: r[k] for k in ("sources", "targets", "intermediates", "pairs")}
        return {"real_ok": ro, "lifted_matches": lm, "detail": {"original": pick(r1), "renamed": pick(r2)}}


def obligations(tier, seed):
    import random

    obs = []
    tpl = corpus.build(tier, seed)
    rnd = random.Random("c08/%s" % seed)
    for key, st in tpl:
        if st.kind in ("drop", "delete", "truncate", "drop_view", "create", "insert_values"):
            continue
        ob = RenameOb(key, st, "ansi", "rename", budget=(min(BUDGET[tier], 5) if key.startswith("rand/") else BUDGET[tier]), seed=seed)
        if not ob.has_local:
            continue
        obs.append(ob)
    if tier == "quick":
        # every FROM shape stays; of the other families a seeded half
        keep = [o for o in obs if ("/plain" in o.key and "/insert/" in o.key) or "merge" in o.key or "update" in o.key]
        obs = [o for o in obs if "/plain" not in o.key or o in keep]   # the ctas/view/bare twins of a FROM shape: thorough
        rest = [o for o in obs if o not in keep]
        obs = keep + rnd.sample(rest, len(rest) // 2)
    flips = [RenameOb(k, st, "ansi", "flip_as", budget=BUDGET[tier], seed=seed) for k, st in tpl if "/plain" in k and k.startswith("insert/")]
    obs += [o for o in flips if o.has_local]
    _nbase = len(obs)
    if tier == "thorough":
        for key, st in tpl:
            if "/plain" in key and key.startswith(("insert/", "ctas/")):
                o3 = RenameOb(key, st, "ansi", "rename", length=3, budget=5, seed=seed)
                om = RenameOb(key, st, "ansi", "rename", lengths=[1, 3, 2], budget=5, seed=seed)
                obs += [o for o in (o3, om) if o.has_local]
        for d in ("sparksql", "postgres", "tsql", "bigquery", "snowflake"):
            for key, st in tpl:
                if key.startswith("insert/") and ("/plain" in key or "/cte" in key):
                    o = RenameOb(key, st, d, "rename", budget=5, seed=seed)
                    if o.has_local:
                        obs.append(o)
    if tier == "thorough" and len(obs) > 600:
        # sized by wall time: every base instance, and a seeded share of the additional length / dialect instances
        import random as _r

        extras = obs[_nbase:]
        room = max(0, 600 - _nbase)
        obs = obs[:_nbase] + _r.Random("c08cap/%s" % seed).sample(extras, min(len(extras), room))
    return obs
