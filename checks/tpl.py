"""shared machinery of the template-corpus checks (C01 C02 C06 C07 C08 C09 C13 C14 C18 ...)"""
from __future__ import annotations

import copy

from checks import gen
from checks.common import Expect, TemplateObligation, spec_norm
from lx.check import Verdict
from lx.engine import SymStr, eng, f_not
from lx.lifted import Dump, LiftedScript, dump_runner, set_eq
from lx.tree import BODY_FIRST, BODY_REST, PLACEHOLDER, Names

# concrete stand-ins for slots that are NOT free in a harness instance; letters outside the body alphabet,
# so a free name can never coincide with a fixed one
FIXED = {"t": "tb", "s": "sc", "a": "al", "d": "dv", "c": "ct", "k": "co", "l": "cl"}


def slot_kind(slot):
    return slot[2]


def fixed_name(slot):
    return FIXED[slot_kind(slot)] + slot[3:]


def make_names(slots, free_kinds, length=2, lengths=None, prefix="n", free_slots=None):
    n = Names(default_len=length, first=BODY_FIRST, rest=BODY_REST, lengths=lengths, prefix=prefix)
    for s in slots:
        if slot_kind(s) not in free_kinds or (free_slots is not None and s not in free_slots):
            n.set(s, fixed_name(s))
    return n


def choose_free(slots, free_kinds, budget, priority, seed_text):
    """which slots are free in this harness instance: all slots of the priority kinds first, then a seeded sample of
    the other free kinds up to the budget (the rest are fixed to constants that cannot clash)"""
    import random

    cand = [s for s in slots if slot_kind(s) in free_kinds]
    if budget is None or len(cand) <= budget:
        return set(cand)
    first = [s for s in cand if slot_kind(s) in priority]
    rest = [s for s in cand if slot_kind(s) not in priority]
    rnd = random.Random(seed_text)
    rnd.shuffle(rest)
    if len(first) > budget:
        rnd.shuffle(first)
        return set(first[:budget])
    return set(first + rest[:budget - len(first)])


# ---- AST walking --------------------------------------------------------------------------------

def from_items(q):
    """all (Sel, J) pairs of a query, recursively"""
    if q is None:
        return
    if isinstance(q, gen.Sel):
        for j in gen.flat(q.frm):
            yield q, j
            if isinstance(j.item, gen.Der):
                yield from from_items(j.item.q)
        for sub in ([q.where_in[1]] if q.where_in else []) + [q.where_exists, q.having_scalar] + list(q.where_cmp or ()):
            if sub is not None:
                yield from from_items(sub)
        for it in q.items:
            yield from _expr_queries(it.e)
    elif isinstance(q, gen.SetOp):
        for b in q.branches:
            yield from from_items(b)
    elif isinstance(q, gen.With):
        for _, b in q.ctes:
            yield from from_items(b)
        yield from from_items(q.body)


def _expr_queries(e):
    if isinstance(e, gen.Scalar):
        yield from from_items(e.q)
    elif isinstance(e, gen.Func):
        for a in list(e.args) + ([e.tail[1]] if e.tail is not None else []):
            yield from _expr_queries(a)
    elif isinstance(e, gen.Case):
        for c, r in e.whens:
            yield from _expr_queries(c)
            yield from _expr_queries(r)
        if e.other is not None:
            yield from _expr_queries(e.other)
    elif isinstance(e, (gen.Cast,)):
        yield from _expr_queries(e.e)
    elif isinstance(e, gen.Arith):
        yield from _expr_queries(e.l)
        yield from _expr_queries(e.r)


def all_withs(q):
    if isinstance(q, gen.With):
        yield q
        for _, b in q.ctes:
            yield from all_withs(b)
        yield from all_withs(q.body)
    elif isinstance(q, gen.SetOp):
        for b in q.branches:
            yield from all_withs(b)
    elif isinstance(q, gen.Sel):
        for j in gen.flat(q.frm):
            if isinstance(j.item, gen.Der):
                yield from all_withs(j.item.q)


def stmt_queries(st):
    qs = [st.q] if st.q is not None else []
    src = st.extra.get("src") if st.extra else None
    if isinstance(src, gen.Der):
        qs.append(src.q)
    return qs


def validity_assumptions(st, val):
    """SQL-validity assumptions on the free names (val(slot) -> normalised SymStr):
    exposed relation names of one FROM scope pairwise distinct; CTE names of one WITH distinct;
    no CTE name captures an unqualified base table (unless that reference IS the CTE, i.e. the same slot)"""
    e = eng()
    ne = lambda a, b: e.assume(f_not(SymStr.const(a)._eq(SymStr.const(b))))
    cte_slots = set()
    for q in stmt_queries(st):
        for w in all_withs(q):
            names = [n for n, _ in w.ctes]
            cte_slots.update(names)
            for i in range(len(names)):
                for k in range(i + 1, len(names)):
                    ne(val(names[i]), val(names[k]))
    for q in stmt_queries(st):
        scopes = {}
        for s, j in from_items(q):
            scopes.setdefault(id(s), []).append(j.item)
        for items in scopes.values():
            ex = []
            for it in items:
                slot = it.alias or (it.name if isinstance(it, gen.Tab) else None)
                if slot is not None:
                    ex.append(slot)
            for i in range(len(ex)):
                for k in range(i + 1, len(ex)):
                    if ex[i] != ex[k]:
                        ne(val(ex[i]), val(ex[k]))
        for s, j in from_items(q):
            it = j.item
            if isinstance(it, gen.Tab) and it.schema is None and it.name not in cte_slots:
                for c in cte_slots:
                    ne(val(it.name), val(c))
    # merge/update: the target's exposed name differs from the source's
    if st.kind in ("merge", "update") and st.extra.get("src") is not None:
        src = st.extra["src"]
        a = st.extra.get("talias") or st.target.name
        b = src.alias or (src.name if isinstance(src, gen.Tab) else None)
        if b is not None:
            ne(val(a), val(b))


def target_differs_from_sources(st, names, quotes=None):
    """harness assumption for column pairs: the written table is none of the tables read (self-insert changes
    what a 'path' is); recorded as an assumption in evidence"""
    if st.target is None:
        return
    o = gen.Oracle(names, quotes)
    tid = o.tid(st.target)
    for q in stmt_queries(st):
        for s, j in from_items(q):
            if isinstance(j.item, gen.Tab):
                eng().assume(f_not(o.tid(j.item)._eq(tid)))
    src = st.extra.get("src") if st.extra else None
    if isinstance(src, gen.Tab):
        eng().assume(f_not(o.tid(src)._eq(tid)))


# ---- AST variants (C08 twins) --------------------------------------------------------------------

def variant(st, mode):
    st = copy.deepcopy(st)
    for q in stmt_queries(st):
        for s, j in from_items(q):
            it = j.item
            if mode == "flip_as" and it.alias:
                it.as_kw = not it.as_kw
    return st


def reentrant_slots(st):
    """slots inside scalar subqueries nested in CASE / function calls: the library re-enters LineageRunner on the
    TEXT of such a subquery (sqlparse), which needs concrete text - these slots stay concrete (structure still
    checked, names there not solved)"""
    out = set()

    def ex(e, inside):
        if isinstance(e, gen.Scalar):
            if True:   # also a scalar subquery used directly as a select item re-enters
                out.update(m.lower() for m in PLACEHOLDER.findall(gen.Renderer().query(e.q)))
        elif isinstance(e, gen.Func):
            for a in list(e.args) + ([e.tail[1]] if e.tail is not None else []):
                ex(a, True)
        elif isinstance(e, gen.Case):
            for c, r in e.whens:
                ex(c, True), ex(r, True)
            if e.other is not None:
                ex(e.other, True)
        elif isinstance(e, gen.Cast):
            ex(e.e, True)
        elif isinstance(e, gen.Arith):
            ex(e.l, True), ex(e.r, True)

    for q in stmt_queries(st):
        for sel in all_sels(q):
            for it in sel.items:
                ex(it.e, False)
    return out


def all_sels(q):
    if isinstance(q, gen.Sel):
        yield q
        for j in gen.flat(q.frm):
            if isinstance(j.item, gen.Der):
                yield from all_sels(j.item.q)
        for sub in ([q.where_in[1]] if q.where_in else []) + [q.where_exists, q.having_scalar] + list(q.where_cmp or ()):
            if sub is not None:
                yield from all_sels(sub)
    elif isinstance(q, gen.SetOp):
        for b in q.branches:
            yield from all_sels(b)
    elif isinstance(q, gen.With):
        for _, b in q.ctes:
            yield from all_sels(b)
        yield from all_sels(q.body)


def scopes_of(st):
    """-> list of FROM scopes, each a list of FROM items (Tab | Der)"""
    sc = {}
    for q in stmt_queries(st):
        for s, j in from_items(q):
            sc.setdefault(id(s), []).append(j.item)
    return list(sc.values())


def cross_scope_alias_region(st, val, tid):
    """region of the recorded finding (alias edges are statement-wide): a base table T occurs in two FROM scopes S and S2 of
    the statement; the name it is referenced under in S2 (its alias there, else its bare name) equals the exposed name of a
    DIFFERENT relation of S"""
    scopes = scopes_of(st)
    for i, sc in enumerate(scopes):
        for k, other in enumerate(scopes):
            if k == i:
                continue
            for x in other:
                if not isinstance(x, gen.Tab):
                    continue
                a = val(x.alias) if x.alias else val(x.name)
                if not any(isinstance(t, gen.Tab) and bool(tid(t) == tid(x)) for t in sc):
                    continue
                for r in sc:
                    if isinstance(r, gen.Tab) and not r.alias and bool(tid(r) == tid(x)):
                        continue
                    exposed = val(r.alias) if r.alias else (val(r.name) if isinstance(r, gen.Tab) else None)
                    if exposed is not None and bool(exposed == a) and not (isinstance(r, gen.Tab) and r.alias and bool(tid(r) == tid(x)) and False):
                        return True
    return False


class StmtOb(TemplateObligation):
    """base: one corpus statement under one dialect"""

    free_kinds = ("t", "s", "a", "d", "c")
    length = 2

    def __init__(self, key, st, dialect="ansi", quotes=None):
        self.tkey, self.st, self.dialect, self.quotes = key, st, dialect, quotes or {}
        self.key = "%s@%s" % (key, dialect)
        self.sql = gen.Renderer(self.quotes).stmt(st)
        self.stmts = [self.sql]
        self.slots = []
        for m in PLACEHOLDER.findall(self.sql):
            if m.lower() not in self.slots:
                self.slots.append(m.lower())

    def names(self, prefix="n"):
        free = set(self.slots) - reentrant_slots(self.st)
        return make_names(self.slots, self.free_kinds, self.length, prefix=prefix, free_slots=free)

    def val(self, names):
        return lambda slot: spec_norm(names[slot], self.quotes.get(slot, "none"))
