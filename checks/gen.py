"""
Statement generator and reference semantics (oracle) for the core SQL of the properties.

A statement is a small typed AST.  It is rendered (a) to placeholder SQL (identifiers are slots `zq<kind><n>`)
for parsing and (b) through lx.tree to concrete SQL for replay.  The oracle is ordinary SQL scoping on the
AST, executed under the same engine, so it too is evaluated for ALL names: it works on the slots' symbolic
values and forks through the engine wherever names have to be compared.

Slot kinds: t = base table, s = schema, a = table alias, d = derived-table alias, c = CTE name,
            k = column, l = column alias.
"""
from __future__ import annotations

from dataclasses import dataclass, field
from typing import List, Optional

from checks.common import D, QUOTES, cat, spec_norm
from lx.engine import SymStr, eng, f_not

# ---------------------------------------------------------------------------------------------
# AST
# ---------------------------------------------------------------------------------------------


@dataclass
class Tab:
    name: str
    schema: Optional[str] = None
    alias: Optional[str] = None
    as_kw: bool = True


@dataclass
class Der:
    q: "Query"
    alias: Optional[str] = None
    as_kw: bool = True


@dataclass
class Grp:
    """a parenthesised join group used as a FROM item: ( a JOIN b ON .. ); its members belong to the enclosing scope"""
    frm: list
    alias: Optional[str] = None


def flat(frm):
    """the relations of a FROM list in order, parenthesised groups flattened (Col.rel indexes into this list)"""
    out = []
    for j in frm:
        if isinstance(j.item, Grp):
            out += flat(j.item.frm)
        else:
            out.append(j)
    return out


@dataclass
class J:
    kind: str          # 'first' | ',' | 'JOIN' | 'LEFT JOIN' | 'INNER JOIN' | 'CROSS JOIN' | 'FULL OUTER JOIN' | 'RIGHT JOIN'
    item: object       # Tab | Der
    cond: Optional[str] = None   # None | 'on' | 'using'


@dataclass
class Col:
    rel: Optional[int]   # index of the FROM item (in this scope) it is qualified with; None = unqualified
    name: str            # column slot or literal column name
    full: bool = False   # qualify with schema.table instead of the bare table name (unaliased tables only)


@dataclass
class Star:
    rel: Optional[int] = None


@dataclass
class Func:
    fname: str
    args: list
    tail: Optional[tuple] = None     # ("filter" | "within", Expr): fn(args) FILTER (WHERE e > 0) / fn(args) WITHIN GROUP (ORDER BY e)


@dataclass
class Case:
    whens: list          # [(cond Expr, result Expr)]
    other: Optional[object] = None


@dataclass
class Cast:
    e: object
    typ: str = "int"
    style: str = "cast"  # 'cast' | 'pg'


@dataclass
class Arith:
    op: str
    l: object
    r: object


@dataclass
class Win:
    fname: str
    arg: Optional[object]
    part: list
    order: list


@dataclass
class Lit:
    text: str = "1"


@dataclass
class Scalar:
    q: "Query"


@dataclass
class Item:
    e: object
    alias: Optional[str] = None


@dataclass
class Sel:
    items: List[Item]
    frm: List[J]
    where_in: Optional[tuple] = None    # (Col, Query): WHERE col IN (query)
    where_exists: Optional["Query"] = None
    where_cmp: Optional[tuple] = None   # (Query, Query): WHERE (query) = (query)
    group: bool = False
    having_scalar: Optional["Query"] = None


@dataclass
class SetOp:
    op: str
    branches: List[Sel]
    paren: bool = False


@dataclass
class With:
    ctes: list           # [(cte slot, Query)]
    body: object


@dataclass
class Stmt:
    kind: str            # insert | ctas | view | bare | update | merge | insert_values | create | drop | delete | truncate | ...
    target: Optional[Tab] = None
    cols: Optional[list] = None
    q: Optional[object] = None
    paren: bool = False
    cte_first: bool = False    # WITH ... INSERT INTO (instead of INSERT INTO ... WITH ...)
    extra: dict = field(default_factory=dict)


# ---------------------------------------------------------------------------------------------
# rendering to placeholder SQL
# ---------------------------------------------------------------------------------------------

class Renderer:
    def __init__(self, quotes=None):
        self.quotes = quotes or {}     # slot -> quote style

    def n(self, slot):
        if not slot.startswith("zq"):
            return slot
        a, b = QUOTES[self.quotes.get(slot, "none")]
        return a + slot + b

    def tab(self, t: Tab):
        s = (self.n(t.schema) + "." if t.schema else "") + self.n(t.name)
        if t.alias:
            s += (" AS " if t.as_kw else " ") + self.n(t.alias)
        return s

    def exposed(self, item):
        """text used to qualify a column of this FROM item"""
        if item.alias:
            return self.n(item.alias)
        if isinstance(item, Tab):
            return self.n(item.name)
        return None

    def from_(self, frm, scope):
        out = []
        for i, j in enumerate(frm):
            it = j.item
            if isinstance(it, Grp):
                txt = "(" + self.from_(it.frm, scope) + ")"
            else:
                txt = self.tab(it) if isinstance(it, Tab) else ("(" + self.query(it.q) + ")" + ((" AS " if it.as_kw else " ") + self.n(it.alias) if it.alias else ""))
            if j.kind == "first":
                out.append(txt)
            elif j.kind == ",":
                out.append(", " + txt)
            else:
                c = ""
                if j.cond == "on":
                    a, b = self.exposed(flat(frm)[0].item) or "x", self.exposed(flat([j])[0].item) or "y"
                    c = " ON %s.id = %s.id" % (a, b)
                elif j.cond == "using":
                    c = " USING (id)"
                out.append(" " + j.kind + " " + txt + c)
        return "".join(out)

    def expr(self, e, frm):
        if isinstance(e, Col):
            if e.rel is None:
                return self.n(e.name)
            it = flat(frm)[e.rel].item
            if e.full and isinstance(it, Tab) and not it.alias:
                return (self.n(it.schema) + "." if it.schema else "") + self.n(it.name) + "." + self.n(e.name)
            return self.exposed(it) + "." + self.n(e.name)
        if isinstance(e, Star):
            return "*" if e.rel is None else self.exposed(flat(frm)[e.rel].item) + ".*"
        if isinstance(e, Func):
            out = "%s(%s)" % (e.fname, ", ".join(self.expr(a, frm) for a in e.args))
            if e.tail is not None:
                out += (" FILTER (WHERE %s > 0)" if e.tail[0] == "filter" else " WITHIN GROUP (ORDER BY %s)") % self.expr(e.tail[1], frm)
            return out
        if isinstance(e, Case):
            s = "CASE " + " ".join("WHEN %s > 0 THEN %s" % (self.expr(c, frm), self.expr(r, frm)) for c, r in e.whens)
            if e.other is not None:
                s += " ELSE " + self.expr(e.other, frm)
            return s + " END"
        if isinstance(e, Cast):
            return "CAST(%s AS %s)" % (self.expr(e.e, frm), e.typ) if e.style == "cast" else "%s::%s" % (self.expr(e.e, frm), e.typ)
        if isinstance(e, Arith):
            return "%s %s %s" % (self.expr(e.l, frm), e.op, self.expr(e.r, frm))
        if isinstance(e, Win):
            s = "%s(%s) OVER (" % (e.fname, self.expr(e.arg, frm) if e.arg is not None else "")
            parts = []
            if e.part:
                parts.append("PARTITION BY " + ", ".join(self.expr(c, frm) for c in e.part))
            if e.order:
                parts.append("ORDER BY " + ", ".join(self.expr(c, frm) for c in e.order))
            return s + " ".join(parts) + ")"
        if isinstance(e, Lit):
            return e.text
        if isinstance(e, Scalar):
            return "(" + self.query(e.q) + ")"
        raise TypeError(e)

    def sel(self, s: Sel):
        items = ", ".join(self.expr(i.e, s.frm) + ((" AS " + self.n(i.alias)) if i.alias else "") for i in s.items)
        out = "SELECT " + items + " FROM " + self.from_(s.frm, s)
        if s.where_in is not None:
            c, q = s.where_in
            out += " WHERE %s IN (%s)" % (self.expr(c, s.frm), self.query(q))
        if s.where_exists is not None:
            out += (" AND" if s.where_in is not None else " WHERE") + " EXISTS (%s)" % self.query(s.where_exists)
        if s.where_cmp is not None:
            out += (" AND" if (s.where_in is not None or s.where_exists is not None) else " WHERE") + \
                " (%s) = (%s)" % (self.query(s.where_cmp[0]), self.query(s.where_cmp[1]))
        if s.group:
            cols = [self.expr(i.e, s.frm) for i in s.items if isinstance(i.e, Col)]
            if cols:
                out += " GROUP BY " + ", ".join(cols)
        if s.having_scalar is not None:
            out += " HAVING count(*) > (%s)" % self.query(s.having_scalar)
        return out

    def query(self, q):
        if isinstance(q, Sel):
            return self.sel(q)
        if isinstance(q, SetOp):
            bs = [("(" + self.sel(b) + ")") if q.paren else self.sel(b) for b in q.branches]
            return (" " + q.op + " ").join(bs)
        if isinstance(q, With):
            return "WITH " + ", ".join("%s AS (%s)" % (self.n(n), self.query(b)) for n, b in q.ctes) + " " + self.query(q.body)
        raise TypeError(q)

    def stmt(self, st: Stmt):
        k = st.kind
        tgt = lambda: (self.n(st.target.schema) + "." if st.target.schema else "") + self.n(st.target.name)
        cols = (" (" + ", ".join(self.n(c) for c in st.cols) + ")") if st.cols else ""
        if k in ("insert", "ctas", "view"):
            head = {"insert": "INSERT INTO %s%s ", "ctas": "CREATE TABLE %s%s AS ", "view": "CREATE VIEW %s%s AS "}[k] % (tgt(), cols)
            if st.cte_first and isinstance(st.q, With):
                w = st.q
                return "WITH " + ", ".join("%s AS (%s)" % (self.n(n), self.query(b)) for n, b in w.ctes) + " " + head + self.query(w.body)
            body = self.query(st.q)
            return head + ("(" + body + ")" if st.paren else body)
        if k == "bare":
            return self.query(st.q)
        if k == "insert_values":
            return "INSERT INTO %s%s VALUES (1, 2)" % (tgt(), cols)
        if k == "create":
            return "CREATE TABLE %s (ca int, cb int)" % tgt()
        if k == "update":
            # UPDATE t SET c = s.c2 FROM s WHERE t.id = s.id
            src = st.extra["src"]
            sets = ", ".join("%s = %s.%s" % (self.n(a), self.exposed(src), self.n(b)) for a, b in st.extra["sets"])
            return "UPDATE %s SET %s FROM %s WHERE %s.id = %s.id" % (tgt(), sets, self.tab(src), self.n(st.target.name), self.exposed(src))
        if k == "merge":
            src = st.extra["src"]
            ta = st.extra.get("talias")
            tref = self.n(ta) if ta else self.n(st.target.name)
            srct = self.tab(src) if isinstance(src, Tab) else "(" + self.query(src.q) + ")" + ((" AS " if src.as_kw else " ") + self.n(src.alias))
            sref = self.exposed(src)
            s = "MERGE INTO %s%s USING %s ON %s.id = %s.id" % (tgt(), (" AS " + self.n(ta)) if ta else "", srct, tref, sref)
            if st.extra.get("update"):
                s += " WHEN MATCHED THEN UPDATE SET " + ", ".join("%s.%s = %s.%s" % (tref, self.n(a), sref, self.n(b)) for a, b in st.extra["update"])
            if st.extra.get("insert"):
                ic, iv = st.extra["insert"]
                s += " WHEN NOT MATCHED THEN INSERT (%s) VALUES (%s)" % (", ".join(self.n(c) for c in ic), ", ".join("%s.%s" % (sref, self.n(v)) for v in iv))
            return s
        if k in ("drop", "delete", "truncate", "show", "use", "drop_view"):
            return {"drop": "DROP TABLE %s", "drop_view": "DROP VIEW %s", "delete": "DELETE FROM %s WHERE id = 1", "truncate": "TRUNCATE TABLE %s",
                    "show": "SHOW TABLES", "use": "USE %s"}[k].replace("%s", tgt() if st.target else "")
        if k == "rename":
            return "ALTER TABLE %s RENAME TO %s" % (tgt(), self.n(st.extra["to"].name))
        raise ValueError(k)


# ---------------------------------------------------------------------------------------------
# reference semantics
# ---------------------------------------------------------------------------------------------

def _unqualified_tables(q):
    if isinstance(q, Sel):
        for j in flat(q.frm):
            if isinstance(j.item, Tab):
                if j.item.schema is None:
                    yield j.item
            else:
                yield from _unqualified_tables(j.item.q)
        for sub in ([q.where_in[1]] if q.where_in else []) + [q.where_exists, q.having_scalar] + list(q.where_cmp or ()):
            if sub is not None:
                yield from _unqualified_tables(sub)
    elif isinstance(q, SetOp):
        for b in q.branches:
            yield from _unqualified_tables(b)
    elif isinstance(q, With):
        for _, b in q.ctes:
            yield from _unqualified_tables(b)
        yield from _unqualified_tables(q.body)


class Unres:
    """an unresolved column: several relations in scope, nothing disambiguates"""

    def __init__(self, name, cands):
        self.name, self.cands = name, cands


class Oracle:
    def __init__(self, names, quotes=None, default_schema=None):
        self.names = names
        self.quotes = quotes or {}
        self.reads = []          # table identities read (SymStr printed names)
        self.assumptions = []    # (description) recorded
        self.default_schema = default_schema

    # normalised value of a slot / literal identifier
    def v(self, slot):
        if not slot.startswith("zq"):
            return SymStr.const(slot).lower()
        return spec_norm(self.names[slot], self.quotes.get(slot, "none"))

    def tid(self, t: Tab):
        if t.schema:
            return cat(self.v(t.schema), ".", self.v(t.name))
        sch = SymStr.const(D) if self.default_schema is None else self.default_schema
        return cat(sch, ".", self.v(t.name))

    def add_read(self, tid):
        if not any(bool(tid == r) for r in self.reads):
            self.reads.append(tid)

    def assume_distinct(self, a, b, why):
        eng().assume(f_not(a._eq(b)) if isinstance(a, SymStr) else True)
        self.assumptions.append(why)

    # ---- queries ---------------------------------------------------------------------
    def query(self, q, ctes):
        """-> list of (out name | None, [sources]) ; sources are (table_id, col) or Unres"""
        if isinstance(q, Sel):
            return self.sel(q, ctes)
        if isinstance(q, SetOp):
            outs = [self.sel(b, ctes) for b in q.branches]
            first = outs[0]
            res = []
            for i, (nm, srcs) in enumerate(first):
                allsrc = list(srcs)
                for o in outs[1:]:
                    if i < len(o):
                        allsrc += o[i][1]
                res.append((nm, allsrc))
            return res
        if isinstance(q, With):
            ctes = list(ctes)
            for i, (n, b) in enumerate(q.ctes):
                # a non-recursive CTE's name is not visible in its own body nor in earlier bodies; whether an unqualified
                # table of that name there is the base table (standard) or a self reference (dialects with implicit
                # recursion) is ambiguous: names assumed apart
                for t in _unqualified_tables(b):
                    for k in range(i, len(q.ctes)):
                        if t.name != q.ctes[k][0]:
                            self.assume_distinct(self.v(t.name), self.v(q.ctes[k][0]),
                                                 "a CTE does not read an unqualified table of its own (or a later CTE's) name")
                ctes.append((n, self.query(b, ctes)))
            # CTE names in one WITH are distinct (SQL validity)
            for i in range(len(q.ctes)):
                for k in range(i + 1, len(q.ctes)):
                    self.assume_distinct(self.v(q.ctes[i][0]), self.v(q.ctes[k][0]), "CTE names of one WITH are distinct")
            return self.query(q.body, ctes)
        raise TypeError(q)

    def relation(self, item, ctes):
        """-> ('table', tid) | ('sub', outcols)"""
        if isinstance(item, Der):
            return ("sub", self.query(item.q, ctes))
        t = item
        if t.schema is None:
            # an undotted name that equals a visible CTE's name IS that CTE (innermost/latest definition wins)
            for (n, cols) in reversed(ctes):
                if bool(self.v(t.name) == self.v(n)):
                    return ("sub", cols)
        tid = self.tid(t)
        self.add_read(tid)
        return ("table", tid)

    def sel(self, s: Sel, ctes):
        rels = [self.relation(j.item, ctes) for j in flat(s.frm)]
        # exposed names in one FROM scope are pairwise distinct (SQL validity)
        exp = []
        for j in flat(s.frm):
            it = j.item
            nm = self.v(it.alias) if it.alias else (self.v(it.name) if isinstance(it, Tab) else None)
            if nm is not None:
                for other in exp:
                    self.assume_distinct(nm, other, "exposed relation names of one FROM scope are distinct")
                exp.append(nm)
        if s.where_in is not None:
            self.query(s.where_in[1], ctes)
        if s.where_exists is not None:
            self.query(s.where_exists, ctes)
        if s.having_scalar is not None:
            self.query(s.having_scalar, ctes)
        for sub in (s.where_cmp or ()):
            self.query(sub, ctes)
        out = []
        for it in s.items:
            e = it.e
            if isinstance(e, Star):
                srcs = []
                targets = rels if e.rel is None else [rels[e.rel]]
                # a star keeps the name '*' unless the relation's columns are known (subquery)
                expanded = []
                for r in targets:
                    if r[0] == "sub":
                        for (nm, ss) in r[1]:
                            expanded.append((nm, ss))
                    else:
                        expanded.append((SymStr.const("*"), [(r[1], SymStr.const("*"))]))
                out += expanded
                continue
            srcs = self.expr(e, rels, s, ctes)
            if it.alias:
                nm = self.v(it.alias)
            elif isinstance(e, Col):
                nm = self.v(e.name)
            elif isinstance(e, Cast) and e.style == "pg" and isinstance(e.e, Col):
                nm = self.v(e.e.name)
            else:
                nm = None      # display name follows the expression's text: not compared
            out.append((nm, srcs))
        return out

    def col(self, c: Col, rels):
        nm = self.v(c.name)
        if c.rel is not None:
            return self.from_rel(rels[c.rel], nm)
        if len(rels) == 1:
            return self.from_rel(rels[0], nm)
        # several relations: the ones with known columns that expose the name disambiguate
        hits = []
        for r in rels:
            if r[0] == "sub":
                for (n2, ss) in r[1]:
                    if n2 is not None and bool(n2 == nm):
                        hits += ss
        if hits:
            return hits
        # the same base table joined to itself under different aliases: whichever copy is meant, the column is that table's
        if all(r[0] == "table" for r in rels) and all(bool(r[1] == rels[0][1]) for r in rels[1:]):
            return [(rels[0][1], nm)]
        return [Unres(nm, [r for r in rels])]

    def from_rel(self, r, nm):
        if r[0] == "table":
            return [(r[1], nm)]
        for (n2, ss) in r[1]:
            if n2 is not None and bool(n2 == nm):
                return list(ss)
        # the subquery does not expose that name (e.g. it came through an inner star): unknown
        stars = [ss for (n2, ss) in r[1] if n2 is not None and bool(n2 == "*")]
        if stars:
            return [(t, nm) for ss in stars for (t, _) in ss if not isinstance(t, Unres)]
        return []

    def expr(self, e, rels, s, ctes):
        if isinstance(e, Col):
            return self.col(e, rels)
        if isinstance(e, Func):
            return [x for a in (list(e.args) + ([e.tail[1]] if e.tail is not None else [])) for x in self.expr(a, rels, s, ctes)]
        if isinstance(e, Case):
            out = []
            for c, r in e.whens:
                out += self.expr(c, rels, s, ctes) + self.expr(r, rels, s, ctes)
            if e.other is not None:
                out += self.expr(e.other, rels, s, ctes)
            return out
        if isinstance(e, Cast):
            return self.expr(e.e, rels, s, ctes)
        if isinstance(e, Arith):
            return self.expr(e.l, rels, s, ctes) + self.expr(e.r, rels, s, ctes)
        if isinstance(e, Win):
            out = self.expr(e.arg, rels, s, ctes) if e.arg is not None else []
            for c in e.part + e.order:
                out += self.expr(c, rels, s, ctes)
            return out
        if isinstance(e, Lit):
            return []
        if isinstance(e, Scalar):
            cols = self.query(e.q, ctes)
            return [x for (_, ss) in cols for x in ss]
        if isinstance(e, Star):
            return []
        raise TypeError(e)

    # ---- statements ------------------------------------------------------------------
    def stmt(self, st: Stmt):
        """-> Expect-like dict: sources, targets, pairs (printed names)"""
        k = st.kind
        pairs = []
        tgt = None
        if k in ("insert", "ctas", "view"):
            tgt = self.tid(st.target)
            cols = self.query(st.q, [])
            names = [self.v(c) for c in st.cols] if (st.cols and len(st.cols) == len(cols)) else [n for n, _ in cols]
            if getattr(self, "rename_outputs", None) is not None:
                names = self.rename_outputs(tgt, names)
            self.outcols = list(zip(names, [s for _, s in cols]))
            for nm, (_, srcs) in zip(names, cols):
                if nm is None:
                    continue
                for sc in srcs:
                    pairs.append((self.print_src(sc), cat(tgt, ".", nm)))
        elif k == "bare":
            self.query(st.q, [])
        elif k in ("insert_values", "create"):
            tgt = self.tid(st.target)
        elif k == "update":
            tgt = self.tid(st.target)
            src = st.extra["src"]
            r = self.relation(src, [])
            for a, b in st.extra["sets"]:
                for sc in self.from_rel(r, self.v(b)):
                    pairs.append((self.print_src(sc), cat(tgt, ".", self.v(a))))
        elif k == "merge":
            tgt = self.tid(st.target)
            src = st.extra["src"]
            r = self.relation(src, [])
            for a, b in st.extra.get("update") or []:
                for sc in self.from_rel(r, self.v(b)):
                    pairs.append((self.print_src(sc), cat(tgt, ".", self.v(a))))
            if st.extra.get("insert"):
                ic, iv = st.extra["insert"]
                for a, b in zip(ic, iv):
                    for sc in self.from_rel(r, self.v(b)):
                        pairs.append((self.print_src(sc), cat(tgt, ".", self.v(a))))
        elif k in ("drop", "delete", "truncate", "show", "use", "drop_view", "rename"):
            return {"sources": [], "targets": [], "pairs": []}
        else:
            raise ValueError(k)
        # de-duplicate pairs
        out = []
        for p in pairs:
            if not any(bool(p[0] == q[0]) and bool(p[1] == q[1]) for q in out):
                out.append(p)
        return {"sources": list(self.reads), "targets": [tgt] if tgt is not None else [], "pairs": out}

    @staticmethod
    def print_src(sc):
        if isinstance(sc, Unres):
            return sc.name
        return cat(sc[0], ".", sc[1])
