"""
Template corpus: bounded-exhaustive enumeration of statement kind x FROM shape x query form (nesting depth
<= 2) over the AST of checks/gen.py, plus seeded random composition to depth 4.
Every template is a (key, Stmt) pair; slots are allocated deterministically.
"""
from __future__ import annotations

import random

from checks.gen import (Grp, Arith, Case, Cast, Col, Der, Func, Item, J, Lit, Scalar, Sel, SetOp, Star, Stmt, Tab, Win, With)


class Alloc:
    def __init__(self):
        self.n = {}

    def new(self, kind):
        self.n[kind] = self.n.get(kind, 0) + 1
        return "zq%s%d" % (kind, self.n[kind])

    t = lambda self: self.new("t")
    s = lambda self: self.new("s")
    a = lambda self: self.new("a")
    d = lambda self: self.new("d")
    c = lambda self: self.new("c")
    k = lambda self: self.new("k")
    l = lambda self: self.new("l")


def simple_sel(a, tab=None, cols=("ca", "cb")):
    t = tab or Tab(a.t())
    return Sel([Item(Col(None, c)) for c in cols], [J("first", t)])


# ---- FROM shapes: name -> builder(alloc, inner) -> (frm, items) ; `inner` builds a nested query when needed ----

def F_single(a, inner):
    return [J("first", Tab(a.t()))], [Item(Col(None, "ca")), Item(Col(0, "cb"))]


def F_alias_as(a, inner):
    return [J("first", Tab(a.t(), alias=a.a()))], [Item(Col(0, "ca")), Item(Col(None, "cb"))]


def F_alias_noas(a, inner):
    return [J("first", Tab(a.t(), alias=a.a(), as_kw=False))], [Item(Col(0, "ca"))]


def F_schema(a, inner):
    return [J("first", Tab(a.t(), schema=a.s()))], [Item(Col(None, "ca")), Item(Col(0, "cb")), Item(Col(0, "cc", full=True))]


def F_schema_alias(a, inner):
    return [J("first", Tab(a.t(), schema=a.s(), alias=a.a()))], [Item(Col(0, "ca"))]


def F_comma(a, inner):
    return [J("first", Tab(a.t())), J(",", Tab(a.t()))], [Item(Col(0, "ca")), Item(Col(1, "cb"))]


def F_comma_alias(a, inner):
    return [J("first", Tab(a.t(), alias=a.a())), J(",", Tab(a.t(), alias=a.a(), as_kw=False))], [Item(Col(0, "ca")), Item(Col(1, "cb"))]


def F_join_on(a, inner):
    return [J("first", Tab(a.t(), alias=a.a())), J("JOIN", Tab(a.t(), alias=a.a()), "on")], [Item(Col(0, "ca")), Item(Col(1, "cb"))]


def F_join_noalias(a, inner):
    return [J("first", Tab(a.t())), J("INNER JOIN", Tab(a.t()), "on")], [Item(Col(0, "ca")), Item(Col(1, "cb"))]


def F_join_using(a, inner):
    return [J("first", Tab(a.t(), alias=a.a())), J("JOIN", Tab(a.t(), alias=a.a()), "using")], [Item(Col(0, "ca")), Item(Col(1, "cb"))]


def F_left_schema(a, inner):
    return ([J("first", Tab(a.t(), schema=a.s(), alias=a.a())), J("LEFT JOIN", Tab(a.t(), schema=a.s(), alias=a.a()), "on")],
            [Item(Col(0, "ca")), Item(Col(1, "cb"))])


def F_cross(a, inner):
    return [J("first", Tab(a.t(), alias=a.a())), J("CROSS JOIN", Tab(a.t(), alias=a.a()))], [Item(Col(0, "ca")), Item(Col(1, "cb"))]


def F_full_outer(a, inner):
    return [J("first", Tab(a.t(), alias=a.a())), J("FULL OUTER JOIN", Tab(a.t(), alias=a.a()), "on")], [Item(Col(0, "ca")), Item(Col(1, "cb"))]


def F_natural(a, inner):
    return [J("first", Tab(a.t(), alias=a.a())), J("NATURAL JOIN", Tab(a.t(), alias=a.a()))], [Item(Col(0, "ca")), Item(Col(1, "cb"))]


def F_right_outer(a, inner):
    return [J("first", Tab(a.t(), alias=a.a())), J("RIGHT OUTER JOIN", Tab(a.t(), alias=a.a()), "on")], [Item(Col(0, "ca")), Item(Col(1, "cb"))]


def F_left_outer_inner(a, inner):
    return ([J("first", Tab(a.t(), alias=a.a())), J("LEFT OUTER JOIN", Tab(a.t(), alias=a.a()), "on"), J("INNER JOIN", Tab(a.t(), alias=a.a()), "using")],
            [Item(Col(0, "ca")), Item(Col(1, "cb")), Item(Col(2, "cc"))])


def F_three_join(a, inner):
    return ([J("first", Tab(a.t(), alias=a.a())), J("JOIN", Tab(a.t(), alias=a.a()), "on"), J("LEFT JOIN", Tab(a.t(), alias=a.a()), "on")],
            [Item(Col(0, "ca")), Item(Col(1, "cb")), Item(Col(2, "cc"))])


def F_mixed_comma(a, inner):
    # an explicit JOIN mixed with a comma join in one FROM (as in TPC-DS q49)
    return ([J("first", Tab(a.t(), alias=a.a())), J("JOIN", Tab(a.t(), alias=a.a()), "on"), J(",", Tab(a.t(), alias=a.a()))],
            [Item(Col(0, "ca")), Item(Col(1, "cb")), Item(Col(2, "cc"))])


def F_self_join(a, inner):
    t = a.t()
    return [J("first", Tab(t, alias=a.a())), J("JOIN", Tab(t, alias=a.a()), "on")], [Item(Col(0, "ca")), Item(Col(1, "cb"))]


def F_derived(a, inner):
    return [J("first", Der(inner(a), alias=a.d()))], [Item(Col(0, "ca")), Item(Col(None, "cb"))]


def F_derived_noas(a, inner):
    return [J("first", Der(inner(a), alias=a.d(), as_kw=False))], [Item(Col(0, "ca")), Item(Col(0, "cb"))]


def F_join_derived(a, inner):
    return ([J("first", Tab(a.t(), alias=a.a())), J("JOIN", Der(inner(a), alias=a.d()), "on")],
            [Item(Col(0, "cc")), Item(Col(1, "ca"))])


def F_derived_join_table(a, inner):
    return ([J("first", Der(inner(a), alias=a.d())), J("LEFT JOIN", Tab(a.t(), alias=a.a()), "on")],
            [Item(Col(0, "ca")), Item(Col(1, "cc"))])


def F_unqualified_join(a, inner):
    # unqualified column over two relations: must be reported unresolved, not guessed
    return [J("first", Tab(a.t(), alias=a.a())), J("JOIN", Tab(a.t(), alias=a.a()), "on")], [Item(Col(None, "ca")), Item(Col(1, "cb"))]


def F_paren_right(a, inner):
    # a JOIN (b JOIN c ON ..) ON ..
    g = Grp([J("first", Tab(a.t(), alias=a.a())), J("JOIN", Tab(a.t(), alias=a.a()), "on")])
    return [J("first", Tab(a.t(), alias=a.a())), J("JOIN", g, "on")], [Item(Col(0, "ca")), Item(Col(1, "cb")), Item(Col(2, "cc"))]


def F_paren_left(a, inner):
    # (a JOIN b ON ..) JOIN c ON ..
    g = Grp([J("first", Tab(a.t(), alias=a.a())), J("JOIN", Tab(a.t(), alias=a.a()), "on")])
    return [J("first", g), J("LEFT JOIN", Tab(a.t(), alias=a.a()), "on")], [Item(Col(0, "ca")), Item(Col(1, "cb")), Item(Col(2, "cc"))]


def F_paren_only(a, inner):
    # FROM (a JOIN b ON ..)
    g = Grp([J("first", Tab(a.t(), alias=a.a())), J("INNER JOIN", Tab(a.t(), alias=a.a()), "on")])
    return [J("first", g)], [Item(Col(0, "ca")), Item(Col(1, "cb"))]


def F_paren_right_derived(a, inner):
    # a JOIN (b JOIN (subquery) d ON ..) ON ..
    g = Grp([J("first", Tab(a.t(), alias=a.a())), J("JOIN", Der(inner(a), alias=a.d()), "on")])
    return [J("first", Tab(a.t(), alias=a.a())), J("JOIN", g, "on")], [Item(Col(0, "cc")), Item(Col(1, "cb")), Item(Col(2, "ca"))]


FROM_SHAPES = {
    "paren_right": F_paren_right, "paren_left": F_paren_left, "paren_only": F_paren_only, "paren_right_derived": F_paren_right_derived,
    "single": F_single, "alias_as": F_alias_as, "alias_noas": F_alias_noas, "schema": F_schema, "schema_alias": F_schema_alias,
    "comma": F_comma, "comma_alias": F_comma_alias, "join_on": F_join_on, "join_noalias": F_join_noalias, "join_using": F_join_using,
    "left_schema": F_left_schema, "cross": F_cross, "full_outer": F_full_outer, "three_join": F_three_join,
    "natural": F_natural, "right_outer": F_right_outer, "left_outer_inner": F_left_outer_inner,
    "mixed_comma": F_mixed_comma, "self_join": F_self_join, "derived": F_derived, "derived_noas": F_derived_noas,
    "join_derived": F_join_derived, "derived_join_table": F_derived_join_table, "unqualified_join": F_unqualified_join,
}
NESTING_SHAPES = ("derived", "derived_noas", "join_derived", "derived_join_table", "paren_right_derived")


def inner_simple(a):
    return simple_sel(a)


def inner_of(shape):
    def f(a):
        frm, items = FROM_SHAPES[shape](a, inner_simple)
        # the nested query exposes ca, cb (aliased so the outer query can refer to them by known names)
        its = []
        for nm, it in zip(("ca", "cb", "cc"), items):
            its.append(Item(it.e, alias=None if (isinstance(it.e, Col) and it.e.name == nm) else nm))
        have = [i.alias or i.e.name for i in its]
        for nm in ("ca", "cb"):
            if nm not in have:
                its.append(Item(Col(0, nm)))
        return Sel(its, frm)
    return f


def q_plain(a, shape, inner=inner_simple):
    frm, items = FROM_SHAPES[shape](a, inner)
    return Sel(items, frm)


def q_union(a, shape, other="single", op="UNION ALL", paren=False):
    b1 = q_plain(a, shape)
    frm2, items2 = FROM_SHAPES[other](a, inner_simple)
    # same arity, different column names in the second branch (position-by-position mapping)
    items2 = [Item(Col(it.e.rel if isinstance(it.e, Col) else 0, "c" + "xyz"[i])) for i, it in zip(range(len(b1.items)), b1.items)]
    if len(frm2) == 1:
        for it in items2:
            it.e.rel = 0 if it.e.rel is not None else None
    return SetOp(op, [b1, Sel(items2, frm2)], paren)


def q_cte(a, shape, body_shape="single"):
    cname = a.c()
    cte_body = q_plain(a, shape)
    # the cte exposes ca / cb / cc under those names
    its = []
    for nm, it in zip(("ca", "cb", "cc"), cte_body.items):
        its.append(Item(it.e, alias=None if (isinstance(it.e, Col) and it.e.name == nm) else nm))
    cte_body.items = its
    body = Sel([Item(Col(None, "ca")), Item(Col(0, "ca"), alias="cz")], [J("first", Tab(cname))])
    return With([(cname, cte_body)], body)


def q_cte_alias_join(a, shape):
    cname = a.c()
    cte_body = q_plain(a, shape)
    cte_body.items = [Item(cte_body.items[0].e, alias="ca")]
    body = Sel([Item(Col(0, "ca")), Item(Col(1, "cb"))], [J("first", Tab(cname, alias=a.a())), J("JOIN", Tab(a.t(), alias=a.a()), "on")])
    return With([(cname, cte_body)], body)


def q_two_ctes(a, shape):
    c1, c2 = a.c(), a.c()
    b1 = q_plain(a, shape)
    b1.items = [Item(b1.items[0].e, alias="ca")]
    b2 = Sel([Item(Col(0, "ca"), alias="cb")], [J("first", Tab(c1))])   # second cte reads the first
    body = Sel([Item(Col(0, "cb"))], [J("first", Tab(c2, alias=a.a()))])
    return With([(c1, b1), (c2, b2)], body)


def q_where_in(a, shape, inner_shape="single"):
    s = q_plain(a, shape)
    frm, items = FROM_SHAPES[inner_shape](a, inner_simple)
    sub = Sel([Item(Col(0, "id"))], frm)
    s.where_in = (Col(0, "id"), sub)
    return s


def q_where_exists(a, shape):
    s = q_plain(a, shape)
    s.where_exists = Sel([Item(Lit("1"))], [J("first", Tab(a.t(), alias=a.a()))])
    return s


def q_nested(a, shape, inner_shape):
    return q_plain(a, shape, inner_of(inner_shape))


def stmt_of(kind, a, q, cols=None, schema_target=False, **kw):
    tgt = Tab(a.t(), schema=a.s() if schema_target else None)
    return Stmt(kind, target=tgt, q=q, cols=cols, **kw)


# expression forms over a two-table join: (items builder)
def expr_items():
    c0a, c1b, c0c = Col(0, "ca"), Col(1, "cb"), Col(0, "cc")
    return {
        "alias": [Item(c0a, alias="zql1")],
        "func": [Item(Func("coalesce", [c0a, c1b]), alias="cx")],
        "func_nested": [Item(Func("max", [Func("coalesce", [c0a, Lit("0")])]), alias="cx")],
        "case": [Item(Case([(c0a, c1b)], other=c0c), alias="cx")],
        "case_nested": [Item(Case([(c0a, Case([(c1b, c0c)], other=Lit("0")))]), alias="cx")],
        "cast": [Item(Cast(c0a, "int"), alias="cx")],
        "cast_in_func": [Item(Func("sum", [Cast(c1b, "int")]), alias="cx")],
        "arith": [Item(Arith("+", c0a, c1b), alias="cx")],
        "arith3": [Item(Arith("*", Arith("+", c0a, c1b), c0c), alias="cx")],
        "window": [Item(Win("row_number", None, [c0a], [c1b]), alias="cx")],
        "window_arg": [Item(Win("sum", c0c, [c0a], []), alias="cx")],
        "literal": [Item(Lit("1"), alias="cx"), Item(c0a)],
        "star": [Item(Star())],
        "qstar": [Item(Star(0)), Item(c1b)],
        "func_unaliased_col": [Item(c0a), Item(Func("count", [c1b]), alias="cn")],
        "mixed": [Item(c0a), Item(Arith("-", c1b, Lit("1")), alias="cy"), Item(Func("upper", [c0c]), alias="cz")],
    }


def build(tier="quick", seed=0):
    """-> list of (key, Stmt)"""
    out = []

    def add(key, fn):
        a = Alloc()
        out.append((key, fn(a)))

    # 1. statement kind x FROM shape, plain query
    for shape in FROM_SHAPES:
        for kind in ("insert", "ctas", "view", "bare"):
            add("%s/%s/plain" % (kind, shape), lambda a, k=kind, s=shape: stmt_of(k, a, q_plain(a, s)))
    # 2. query forms
    for shape in FROM_SHAPES:
        add("insert/%s/union" % shape, lambda a, s=shape: stmt_of("insert", a, q_union(a, s)))
        add("insert/%s/cte" % shape, lambda a, s=shape: stmt_of("insert", a, q_cte(a, s)))
        add("insert/%s/where_in" % shape, lambda a, s=shape: stmt_of("insert", a, q_where_in(a, s)))
    for shape in ("single", "join_on", "comma", "derived", "left_schema"):
        add("ctas/%s/union3" % shape, lambda a, s=shape: stmt_of("ctas", a, SetOp("UNION", q_union(a, s).branches + [q_plain(a, "alias_as") if False else Sel([Item(Col(0, "c" + "qrs"[n])) for n, _ in enumerate(q_plain(Alloc(), s).items)], [J("first", Tab(a.t()))])])))
        add("insert/%s/union_paren" % shape, lambda a, s=shape: stmt_of("insert", a, q_union(a, s, paren=True)))
        add("insert/%s/cte_first" % shape, lambda a, s=shape: stmt_of("insert", a, q_cte(a, s), cte_first=True))
        add("insert/%s/cte_alias_join" % shape, lambda a, s=shape: stmt_of("insert", a, q_cte_alias_join(a, s)))
        add("insert/%s/two_ctes" % shape, lambda a, s=shape: stmt_of("insert", a, q_two_ctes(a, s)))
        add("insert/%s/where_exists" % shape, lambda a, s=shape: stmt_of("insert", a, q_where_exists(a, s)))
        add("view/%s/cte" % shape, lambda a, s=shape: stmt_of("view", a, q_cte(a, s)))
        add("bare/%s/cte" % shape, lambda a, s=shape: stmt_of("bare", a, q_cte(a, s)))
        add("bare/%s/union" % shape, lambda a, s=shape: stmt_of("bare", a, q_union(a, s)))
        add("insert/%s/paren" % shape, lambda a, s=shape: stmt_of("insert", a, q_plain(a, s), paren=True))
        add("ctas/%s/paren" % shape, lambda a, s=shape: stmt_of("ctas", a, q_plain(a, s), paren=True))
        add("insert/%s/schema_target" % shape, lambda a, s=shape: stmt_of("insert", a, q_plain(a, s), schema_target=True))
    # 3. nesting depth 2: shape containing a nested query of another shape
    for outer in NESTING_SHAPES:
        for inner in ("alias_as", "join_on", "comma", "schema", "derived", "join_derived", "left_schema", "self_join"):
            add("insert/%s(%s)/nested" % (outer, inner), lambda a, o=outer, i=inner: stmt_of("insert", a, q_nested(a, o, i)))
    for shape in ("join_on", "derived", "comma"):
        add("insert/%s/where_in(join)" % shape, lambda a, s=shape: stmt_of("insert", a, q_where_in(a, s, "join_on")))
        add("insert/%s/where_in(derived)" % shape, lambda a, s=shape: stmt_of("insert", a, q_where_in(a, s, "derived")))
        add("insert/cte(%s)+union/deep" % shape, lambda a, s=shape: stmt_of("insert", a, With([(lambda c: (c, _named(q_union(a, s))))(a.c())], None)))
    out = [(k, _fix_with(st)) for k, st in out]
    # 4. explicit column lists
    for shape in ("single", "join_on", "derived"):
        add("insert_cols/%s" % shape, lambda a, s=shape: _with_cols(stmt_of("insert", a, q_plain(a, s))))
        add("view_cols/%s" % shape, lambda a, s=shape: _with_cols(stmt_of("view", a, q_plain(a, s))))
    add("insert_cols/union", lambda a: _with_cols(stmt_of("insert", a, q_union(a, "join_on"))))
    # 5. expression forms
    for name, items in expr_items().items():
        def mk(a, items=items):
            frm, _ = F_join_on(a, inner_simple)
            return stmt_of("insert", a, Sel(items, frm))
        add("expr/%s/join_on" % name, mk)

        def mk1(a, items=items):
            frm = [J("first", Tab(a.t()))]
            its = [_single_rel(i) for i in items]
            return stmt_of("ctas", a, Sel(its, frm))
        add("expr/%s/single" % name, mk1)
    # 6. scalar subqueries (select list / HAVING) and other kinds
    add("insert/scalar_in_select", lambda a: stmt_of("insert", a, Sel([Item(Col(0, "ca")), Item(Scalar(Sel([Item(Func("max", [Col(0, "cb")]))], [J("first", Tab(a.t()))])), alias="cm")], [J("first", Tab(a.t(), alias=a.a()))])))
    add("insert/scalar_in_having", lambda a: stmt_of("insert", a, _having(a)))
    add("insert/scalar_in_case", lambda a: stmt_of("insert", a, Sel([Item(Case([(Col(0, "ca"), Scalar(Sel([Item(Func("max", [Col(0, "cb")]))], [J("first", Tab(a.t()))])))], other=Lit("0")), alias="cm")], [J("first", Tab(a.t(), alias=a.a()))])))
    add("insert/scalar_in_function", lambda a: stmt_of("insert", a, Sel([Item(Func("coalesce", [Scalar(Sel([Item(Func("max", [Col(0, "cb")]))], [J("first", Tab(a.t()))])), Lit("0")]), alias="cm")], [J("first", Tab(a.t(), alias=a.a()))])))
    # calibrated shapes: a literal column in the first UNION branch; the same bare table name under two schemas
    add("insert/union_literal_first", lambda a: stmt_of("insert", a, SetOp("UNION ALL", [
        Sel([Item(Lit("1"), alias="cx"), Item(Col(0, "ca"))], [J("first", Tab(a.t(), alias=a.a()))]),
        Sel([Item(Col(0, "cb")), Item(Col(0, "cc"))], [J("first", Tab(a.t(), alias=a.a()))])])))
    add("insert/union_literal_second", lambda a: stmt_of("insert", a, SetOp("UNION ALL", [
        Sel([Item(Col(0, "ca")), Item(Col(0, "cb"))], [J("first", Tab(a.t(), alias=a.a()))]),
        Sel([Item(Lit("1")), Item(Col(0, "cc"))], [J("first", Tab(a.t(), alias=a.a()))])])))
    add("insert/union_function_first", lambda a: stmt_of("insert", a, SetOp("UNION", [
        Sel([Item(Func("max", [Col(0, "ca")]), alias="cx"), Item(Col(0, "cb"))], [J("first", Tab(a.t()))], group=True),
        Sel([Item(Col(0, "cc")), Item(Col(0, "cd"))], [J("first", Tab(a.t()))])])))

    def same_bare(a, aliased):
        t = a.t()
        return stmt_of("insert", a, Sel([Item(Col(0, "ca")), Item(Col(1, "cb"))],
                                        [J("first", Tab(t, schema=a.s(), alias=a.a() if aliased else None)),
                                         J("JOIN", Tab(t, schema=a.s(), alias=a.a() if aliased else None), "on")]))
    add("insert/same_bare_name_two_schemas_aliased", lambda a: same_bare(a, True))
    for sa in (False, True):
        add("update/from%s" % ("_alias" if sa else ""), lambda a, sa=sa: Stmt("update", target=Tab(a.t()), extra={"src": Tab(a.t(), alias=a.a() if sa else None), "sets": [("ca", "cb"), ("cc", "cd")]}))
        add("merge/table%s" % ("_alias" if sa else ""), lambda a, sa=sa: Stmt("merge", target=Tab(a.t()), extra={"src": Tab(a.t(), alias=a.a() if sa else None), "talias": a.a() if sa else None, "update": [("ca", "cb")], "insert": (["ca", "cc"], ["cb", "cd"])}))
    add("merge/subquery", lambda a: Stmt("merge", target=Tab(a.t()), extra={"src": Der(simple_sel(a, cols=("cb", "cd")), alias=a.d()), "talias": None, "update": [("ca", "cb")], "insert": (["ca", "cc"], ["cb", "cd"])}))
    add("merge/subquery_join", lambda a: Stmt("merge", target=Tab(a.t(), schema=a.s()), extra={"src": Der(Sel([Item(Col(0, "cb")), Item(Col(1, "cd"))], F_join_on(a, None)[0]), alias=a.d()), "talias": a.a(), "update": [("ca", "cb")], "insert": None}))
    for k in ("insert_values", "create", "drop", "delete", "truncate", "drop_view"):
        add("nodata/%s" % k, lambda a, k=k: Stmt(k, target=Tab(a.t())))
    add("nodata/delete_schema", lambda a: Stmt("delete", target=Tab(a.t(), schema=a.s())))
    if tier == "thorough":
        rnd = random.Random("corpus/%s" % seed)
        shapes = list(FROM_SHAPES)
        for i in range(120):
            o = rnd.choice(NESTING_SHAPES)
            i1 = rnd.choice(NESTING_SHAPES + ("join_on", "comma", "alias_as"))
            i2 = rnd.choice(shapes)
            form = rnd.choice(["plain", "union", "cte", "where_in"])

            def mk(a, o=o, i1=i1, i2=i2, form=form):
                deep = lambda al: q_plain(al, i1, inner_of(i2)) if i1 in NESTING_SHAPES else q_plain(al, i1)
                inner = lambda al: _named(deep(al))
                q = q_plain(a, o, inner)
                if form == "union":
                    q = SetOp("UNION ALL", [q, Sel([Item(Col(0, "c" + "xyz"[n])) for n in range(len(q.items))], [J("first", Tab(a.t()))])])
                elif form == "where_in":
                    q.where_in = (Col(0, "id"), Sel([Item(Col(0, "id"))], F_join_on(a, None)[0]))
                elif form == "cte":
                    c = a.c()
                    q = With([(c, _named(q))], Sel([Item(Col(0, "ca"))], [J("first", Tab(c, alias=a.a()))]))
                return stmt_of(rnd.choice(["insert", "ctas"]), a, q)
            add("rand/%03d/%s(%s(%s))/%s" % (i, o, i1, i2, form), mk)
    # unique keys
    seen, res = set(), []
    for k, st in out:
        if k not in seen:
            seen.add(k)
            res.append((k, st))
    return res


def _named(q):
    """make a query expose its first columns as ca, cb(, cc)"""
    s = q.branches[0] if isinstance(q, SetOp) else q
    its = []
    for nm, it in zip(("ca", "cb", "cc"), s.items):
        its.append(Item(it.e, alias=None if (isinstance(it.e, Col) and it.e.name == nm) else nm))
    s.items = its
    if isinstance(q, SetOp):
        for b in q.branches[1:]:
            b.items = b.items[:len(its)]
    return q


def _fix_with(st):
    """templates built as With([...], None): give them a body that reads the cte"""
    if isinstance(st.q, With) and st.q.body is None:
        c = st.q.ctes[0][0]
        st.q.body = Sel([Item(Col(0, "ca")), Item(Col(None, "cb"))], [J("first", Tab(c))])
    return st


def _with_cols(st):
    q = st.q.branches[0] if isinstance(st.q, SetOp) else st.q
    st.cols = ["cw%d" % i for i in range(len(q.items))]
    return st


def _single_rel(it):
    import copy

    it = copy.deepcopy(it)

    def fix(e):
        if isinstance(e, Col):
            e.rel = 0 if e.rel is not None else None
            if e.rel == 0 and e.name in ("cb",):
                e.rel = None   # mix of qualified and unqualified references to the only relation
        elif isinstance(e, Func):
            [fix(x) for x in e.args]
        elif isinstance(e, Case):
            for c, r in e.whens:
                fix(c), fix(r)
            if e.other is not None:
                fix(e.other)
        elif isinstance(e, Cast):
            fix(e.e)
        elif isinstance(e, Arith):
            fix(e.l), fix(e.r)
        elif isinstance(e, Win):
            if e.arg is not None:
                fix(e.arg)
            [fix(x) for x in e.part + e.order]
        elif isinstance(e, Star):
            e.rel = 0 if e.rel is not None else None
    fix(it.e)
    return it


def _having(a):
    s = Sel([Item(Col(0, "ca")), Item(Func("count", [Col(0, "cb")]), alias="cn")], [J("first", Tab(a.t(), alias=a.a()))], group=True)
    s.having_scalar = Sel([Item(Func("max", [Col(0, "cc")]))], [J("first", Tab(a.t()))])
    return s
