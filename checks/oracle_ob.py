"""oracle-based template obligations shared by C01 (tables) and C02 (column pairs)"""
from __future__ import annotations

import copy
import re

from checks import gen
from checks.common import Expect
from checks.tpl import (StmtOb, choose_free, cross_scope_alias_region, make_names, reentrant_slots, stmt_queries, all_sels,
                        target_differs_from_sources, validity_assumptions)
from lx.engine import SymStr, eng, f_not
from lx.lifted import dump_runner, set_eq

_COL = re.compile(r"^c[a-z]\d?$")


def slotify_columns(st):
    """every literal column name / column alias becomes a slot (same literal -> same slot), so that column names are
    free too; 'id' (join keys) stays literal"""
    st = copy.deepcopy(st)
    m = {}

    def slot(name, kind="k"):
        if name is None or name.startswith("zq") or not _COL.match(name):
            return name
        if name not in m:
            m[name] = "zq%s%d" % (kind, 1 + sum(1 for v in m.values() if v[2] == kind))
        return m[name]

    def ex(e):
        if isinstance(e, gen.Col):
            e.name = slot(e.name)
        elif isinstance(e, gen.Func):
            [ex(a) for a in e.args]
            if e.tail is not None:
                ex(e.tail[1])
        elif isinstance(e, gen.Case):
            for c, r in e.whens:
                ex(c), ex(r)
            if e.other is not None:
                ex(e.other)
        elif isinstance(e, gen.Cast):
            ex(e.e)
        elif isinstance(e, gen.Arith):
            ex(e.l), ex(e.r)
        elif isinstance(e, gen.Win):
            if e.arg is not None:
                ex(e.arg)
            [ex(c) for c in e.part + e.order]
        elif isinstance(e, gen.Scalar):
            [fix_sel(s) for s in all_sels(e.q)]

    def fix_sel(s):
        for it in s.items:
            ex(it.e)
            it.alias = slot(it.alias)
        if s.where_in is not None:
            ex(s.where_in[0])

    for q in stmt_queries(st):
        for s in all_sels(q):
            fix_sel(s)
    if st.cols:
        st.cols = [slot(c) for c in st.cols]
    if st.extra.get("sets"):
        st.extra["sets"] = [(slot(a), slot(b)) for a, b in st.extra["sets"]]
    if st.extra.get("update"):
        st.extra["update"] = [(slot(a), slot(b)) for a, b in st.extra["update"]]
    if st.extra.get("insert"):
        ic, iv = st.extra["insert"]
        st.extra["insert"] = ([slot(c) for c in ic], [slot(v) for v in iv])
    return st


class OracleOb(StmtOb):
    fields = ("sources", "targets", "intermediates", "pairs")
    family = "tabs"
    priority = ("t", "s")
    pid = "C01"
    distinct_outputs = False
    target_apart = False

    def __init__(self, key, st, dialect="ansi", family="tabs", budget=5, seed=0, length=2, lengths=None, quotes=None):
        if family == "cols":
            st = slotify_columns(st)
        super().__init__(key, st, dialect, quotes=quotes)
        self.family, self.length, self.lengths = family, length, lengths
        self.free_kinds = ("k", "l") if family == "cols" else ("t", "s", "a", "d", "c")
        cand = [x for x in self.slots if x not in reentrant_slots(st)]
        prio = {"tabs": self.priority, "cols": ("k",), "locals": ("d", "c", "a")}[family]
        self.free = choose_free(cand, self.free_kinds, budget, prio, "%s/%s/%s" % (self.pid, seed, key))
        self.key = "%s/%s/len%s@%s%s" % (family, key, length if not lengths else "mix", dialect, "/quoted" if quotes else "")

    def names(self, prefix="n"):
        lens = None
        if self.lengths:
            lens = {s: self.lengths[i % len(self.lengths)] for i, s in enumerate(self.slots)}
        return make_names(self.slots, self.free_kinds, self.length, lengths=lens, prefix=prefix, free_slots=self.free)

    def classify(self, names, lifted, exp):
        return None

    def body(self):
        names = self.names()
        o = gen.Oracle(names, self.quotes)
        e = o.stmt(self.st)
        if self.target_apart:
            target_differs_from_sources(self.st, names, self.quotes)
            # for column pairs a base table captured by a CTE name would have to expose the referenced columns to be valid
            # SQL: that coincidence is assumed away here (C01 keeps it: shadowing is a table-level matter)
            validity_assumptions(self.st, self.val(names))
        if self.distinct_outputs:
            self.assume_distinct_outputs(o)
        exp = Expect(sources=e["sources"], targets=e["targets"], intermediates=[], pairs=e["pairs"])
        lifted = dump_runner(self.script.runner(names))
        ok = self.compare(lifted, exp)
        finding = None if ok else self.classify(names, lifted, exp)
        return self.verdict(names, lifted, exp, ok=ok, finding=finding)

    def assume_distinct_outputs(self, o):
        """output column names of one select list are pairwise distinct (needed to refer to them by name)"""
        for q in stmt_queries(self.st):
            for s in all_sels(q):
                nm = []
                for it in s.items:
                    slot = it.alias or (it.e.name if isinstance(it.e, gen.Col) else None)
                    if slot is not None:
                        nm.append(o.v(slot))
                for i in range(len(nm)):
                    for k in range(i + 1, len(nm)):
                        eng().assume(f_not(nm[i]._eq(nm[k])))
        if self.st.cols:
            nm = [o.v(c) for c in self.st.cols]
            for i in range(len(nm)):
                for k in range(i + 1, len(nm)):
                    eng().assume(f_not(nm[i]._eq(nm[k])))
