"""
C12  Runs are isolated from one another  (reduced scope: real thread interleavings are not encoded, see BOUNDS).

The real LineageRunner, one provider object reused: history H (one or two runs; a run may fail at SYMBOLIC statement
position k with an unsupported or an unparsable statement, or with the provider raising on its j-th lookup, j symbolic)
followed by run B; names are free, so a table H creates may be the table B reads.  Assertions: B's result equals B on a
fresh provider; after every run, however it ended, provider.get_table_columns(t) answers as a fresh provider does, for a
free t; the default provider shared by all runners is covered by leaving metadata_provider unset.
Interleaving at lookup granularity: run A's provider starts and completes run B (own provider) inside its j-th lookup -
A must equal A alone and B must equal B alone (what "analyses running concurrently with their own providers" can
observe at the only points where a run calls out).
Frame check: no module-level mutable object of sqllineage.* changes across a run (cheap, concrete, reported separately).
"""
from __future__ import annotations

from checks.c15 import fork_bool, fork_choice
from checks.common import TemplateObligation
from lx.check import Obligation, Verdict
from lx.engine import SymStr, Unsupported, eng, f_not, sym_value
from lx.lifted import TWIN, LiftedScript, dump_runner, set_eq, twin_arm
from lx.tree import Names

PID = "C12"
BOUNDS = ("history of 1-2 runs + run B on one provider; failing statement position k in 0..3, provider fault index j in 1..4; free names: the "
          "tables H creates, the table B reads, 2 column names (2 characters); nested run at the j-th provider lookup; real OS-thread "
          "interleavings are NOT encoded: runs with their own providers share only SQLLineageConfig (C15) and import-time constants, "
          "which the frame check asserts (module- and class-level mutable objects, memoised functions, mutable attribute objects shared by fresh provider / analyzer "
          "instances; every public accessor exercised)")
STUBS = ["sqllineage.runner.split / SqlFluffLineageAnalyzer._list_specific_statement_segment (parser boundary; the unparsable statement is "
         "the stub raising InvalidSyntaxException for its handle, as the real function does on lex/parse violations)"]
ASSUMPTIONS = ["a run calls out (and can be interleaved with another run of the same thread) only at provider lookups",
               "the tsql split cache lives on the per-run analyzer object (asserted by the frame check)"]

H_STMTS = ["CREATE TABLE s.zqt1 AS SELECT zqk1, zqk2 FROM s.ta", "INSERT INTO s.zqt2 SELECT * FROM s.zqt1", "INSERT INTO s.tx SELECT cz FROM s.zqt1 AS a JOIN s.tb AS b ON a.id = b.id"]
UNSUPPORTED = "CREATE INDEX ix ON s.ta (ca)"
B_STMTS = ["INSERT INTO s.tw SELECT * FROM s.zqt3", "INSERT INTO s.tv SELECT zqk3 FROM s.zqt3 AS a JOIN s.tc AS b ON a.id = b.id"]
UNRELATED = {"other.tab": ["cq"]}
# derived tables without alias are named by the library itself: whatever it keeps for that must not outlive / precede a run
ANON_SUBQUERIES = "INSERT INTO s.ty SELECT ca FROM (SELECT ca FROM s.ta) UNION ALL SELECT cb FROM (SELECT cb FROM s.tb)"


def md():
    return {SymStr.const(k): [SymStr.const(c) for c in v] for k, v in UNRELATED.items()}


class Bad(Exception):
    pass


def make_provider(fault_at=None, nested=None):
    from sqllineage.core.metadata.dummy import DummyMetaDataProvider
    from sqllineage.exceptions import MetaDataProviderException

    class P(DummyMetaDataProvider):
        calls = 0

        def _get_table_columns(self, schema, table, **kw):
            self.calls += 1
            if fault_at is not None and self.calls == fault_at:
                raise MetaDataProviderException("provider unavailable")
            if nested is not None and self.calls == nested[0]:
                nested[1]()
            return super()._get_table_columns(schema, table, **kw)

    return P(md())


def run(script, names, provider=None, silent=False):
    """-> (dump | None, exception type name | None)"""
    from sqllineage.exceptions import SQLLineageException

    try:
        kw = {"silent_mode": True} if silent else {}
        lr = script.runner(names, provider=provider, **kw) if provider is not None else script.runner(names, **kw)
        return dump_runner(lr), None
    except SQLLineageException as e:
        return None, type(e).__name__


def probe(provider, t):
    from sqllineage.core.models import Table

    return [c.raw_name for c in provider.get_table_columns(Table(t))]


class HistoryOb(Obligation):
    max_paths = 100000
    budget_s = 900

    def __init__(self, mode):
        self.mode = mode
        self.key = "history/" + mode

    def describe(self):
        return {"key": self.key, "mode": self.mode}

    def prepare(self):
        from lx.lifted import _install, _state
        from sqllineage.exceptions import InvalidSyntaxException

        self.B = LiftedScript(B_STMTS, "ansi")
        self.B0 = LiftedScript(B_STMTS, "ansi")
        # H with the failing statement at each position
        self.H = {}
        for k in range(len(H_STMTS) + 1):
            for kind in ("none", "unsupported", "unparsable"):
                if kind == "none":
                    if k == 0:
                        self.H[(0, "none")] = LiftedScript(H_STMTS, "ansi")
                    continue
                stmts = list(H_STMTS)
                stmts.insert(k, UNSUPPORTED)
                sc = LiftedScript(stmts, "ansi")
                if kind == "unparsable":
                    sc.unparsable = sc.handles[k]
                self.H[(k, kind)] = sc
        # the stub raises InvalidSyntaxException for handles marked unparsable (what the real parse entry point does)
        import sqllineage.core.parser.sqlfluff.analyzer as an

        cls = an.SqlFluffLineageAnalyzer
        if not getattr(cls, "_lx_unparsable_wrapped", False):
            inner = cls._list_specific_statement_segment
            marked = self._marked = set()
            cls._lx_marked = marked

            def wrapped(self_, sql):
                if isinstance(sql, str) and str.__str__(sql) in cls._lx_marked:
                    raise InvalidSyntaxException("This SQL statement is unparsable")
                return inner(self_, sql)
            cls._list_specific_statement_segment = wrapped
            cls._lx_unparsable_wrapped = True
        self.cls = cls

    def body(self):
        from sqllineage.core.metadata.dummy import DummyMetaDataProvider

        names = Names(default_len=2)
        mode = self.mode
        self.cls._lx_marked.clear()
        steps = []
        if mode == "default_provider":
            provider = None
        elif mode == "provider_fault":
            j = 1 + fork_choice("fault_j", 4)
            provider = make_provider(fault_at=j)
            steps.append(("fault_at", j))
        else:
            provider = make_provider()
        # history: one or two runs of H, each clean or failing at position k
        nruns = 1 + fork_choice("nruns", 2) if mode == "statement_fault" else 1
        twin_arm(False)          # sensitivity twin: the history's own results are discarded, run B's is the observation
        for r in range(nruns):
            if mode == "statement_fault":
                kind = ["unsupported", "unparsable"][fork_choice("kind%d" % r, 2)]
                k = fork_choice("k%d" % r, len(H_STMTS) + 1)
                sc = self.H[(k, kind)]
                if kind == "unparsable":
                    self.cls._lx_marked.add(sc.unparsable)
            else:
                k, kind, sc = 0, "none", self.H[(0, "none")]
            d, exc = run(sc, names, provider)
            steps.append(("H", k, kind, exc))
            self.cls._lx_marked.clear()
            if provider is not None:
                if mode == "provider_fault":
                    provider.calls = 100   # the probes themselves must not trip the injected fault
                # whatever happened, the provider answers as a fresh one: nothing learned during the run survives it
                for t in (SymStr.const("s.") + names["zqt1"].lower(), SymStr.const("s.") + names["zqt2"].lower(), SymStr.const("s.tx")):
                    if probe(provider, t):
                        return Verdict(False, {"names": names, "steps": steps, "why": "the provider still knows a table learned during a run", "mode": mode})
        twin_arm(True)
        got, gexc = run(self.B, names, provider)
        fresh, fexc = run(self.B0, names, DummyMetaDataProvider(md()) if mode != "default_provider" else None) if mode != "default_provider" \
            else run(self.B0, names, None)
        if mode == "provider_fault" and gexc is not None:
            # the injected fault may also hit run B (j beyond H's lookups): then only the cleanup obligation applies
            return Verdict(True, {"names": names, "steps": steps, "why": None, "mode": mode}, nontrivial=False)
        ok = gexc == fexc and (got is None or got.same(fresh))
        return Verdict(ok, {"names": names, "steps": steps, "why": None if ok else "run B differs from run B on a fresh provider", "mode": mode,
                            "got": got.concretise if False else None})

    def concretise(self, verdict, model):
        d = verdict.data
        return {"names": d["names"].concretise(model), "steps": d["steps"], "mode": d["mode"], "why": d["why"]}

    def replay(self, conc, verdict_ok):
        from lx import replay as R

        r = R.run_code(REPLAY % {"c": repr(conc), "H": repr(H_STMTS), "B": repr(B_STMTS), "U": repr(UNSUPPORTED), "md": repr(UNRELATED)})
        if not r.get("ok"):
            return {"real_ok": False, "lifted_matches": False, "detail": r}
        res = r["result"]
        return {"real_ok": res["ok"], "lifted_matches": res["ok"] == verdict_ok, "detail": res}


REPLAY = r'''
import re, warnings
warnings.simplefilter("ignore")
from sqllineage.runner import LineageRunner
from sqllineage.core.metadata.dummy import DummyMetaDataProvider
from sqllineage.core.models import Table
from sqllineage.exceptions import SQLLineageException, MetaDataProviderException
c = %(c)s
H, B, U, MD = %(H)s, %(B)s, %(U)s, %(md)s
sub = lambda s: re.sub(r"zq[a-z0-9]+", lambda m: c["names"].get(m.group(0), "xx"), s)
fault = [s[1] for s in c["steps"] if s[0] == "fault_at"]
class P(DummyMetaDataProvider):
    calls = 0
    def _get_table_columns(self, schema, table, **kw):
        self.calls += 1
        if fault and self.calls == fault[0]: raise MetaDataProviderException("provider unavailable")
        return super()._get_table_columns(schema, table, **kw)
def dump(sql, prov):
    try:
        kw = {"metadata_provider": prov} if prov is not None else {}
        lr = LineageRunner(sql, **kw)
        return ([str(t) for t in lr.source_tables], [str(t) for t in lr.target_tables], [str(t) for t in lr.intermediate_tables],
                sorted((str(p[0]), str(p[-1])) for p in lr.get_column_lineage())), None
    except SQLLineageException as e:
        return None, type(e).__name__
prov = None if c["mode"] == "default_provider" else P(dict(MD))
why = None
for st in c["steps"]:
    if st[0] != "H": continue
    _, k, kind, exc = st
    stmts = [sub(s) for s in H]
    if kind == "unsupported": stmts.insert(k, U)
    if kind == "unparsable": stmts.insert(k, "SELECT FROM WHERE (")
    d, e = dump(";\n".join(stmts), prov)
    if prov is not None:
        prov.calls = 100
        for t in ("s." + c["names"]["zqt1"].lower(), "s." + c["names"]["zqt2"].lower(), "s.tx"):
            if prov.get_table_columns(Table(t)): why = "the provider still knows %%s after the run" %% t
got, ge = dump(";\n".join(sub(s) for s in B), prov)
fresh, fe = dump(";\n".join(sub(s) for s in B), DummyMetaDataProvider(dict(MD)) if c["mode"] != "default_provider" else None)
if c["mode"] == "default_provider":
    import subprocess, sys, json
if why is None and not (c["mode"] == "provider_fault" and ge is not None) and (got, ge) != (fresh, fe): why = "run B differs: %%r vs fresh %%r" %% (got, fresh)
result = {"ok": why is None, "why": why}
'''


class NestedOb(Obligation):
    """run A's provider starts and completes run B (own provider) inside its j-th lookup"""

    budget_s = 900

    def __init__(self):
        self.key = "nested/run-inside-lookup"

    def prepare(self):
        self.A = LiftedScript(H_STMTS, "ansi")
        self.A0 = LiftedScript(H_STMTS, "ansi")
        self.B = LiftedScript(B_STMTS, "ansi")
        self.B0 = LiftedScript(B_STMTS, "ansi")

    def body(self):
        names = Names(default_len=2)
        j = 1 + fork_choice("nest_j", 4)
        box = {}

        def inner():
            box["b"] = run(self.B, names, make_provider())
        pa = make_provider(nested=(j, inner))
        a = run(self.A, names, pa)
        a0 = run(self.A0, names, make_provider())
        if "b" not in box:
            return Verdict(True, {"names": names, "j": j, "why": None}, nontrivial=False)
        b0 = run(self.B0, names, make_provider())
        same = lambda x, y: x[1] == y[1] and (x[0] is None or x[0].same(y[0]))
        why = None
        if not same(a, a0):
            why = "run A differs when another run happens inside its provider lookup"
        elif not same(box["b"], b0):
            why = "the nested run B differs from B alone"
        return Verdict(why is None, {"names": names, "j": j, "why": why})

    def concretise(self, verdict, model):
        d = verdict.data
        return {"names": d["names"].concretise(model), "j": d["j"], "why": d["why"]}

    def replay(self, conc, verdict_ok):
        from lx import replay as R

        r = R.run_code(REPLAY_NESTED % {"c": repr(conc), "H": repr(H_STMTS), "B": repr(B_STMTS), "md": repr(UNRELATED)})
        if not r.get("ok"):
            return {"real_ok": False, "lifted_matches": False, "detail": r}
        res = r["result"]
        return {"real_ok": res["ok"], "lifted_matches": res["ok"] == verdict_ok, "detail": res}


REPLAY_NESTED = r'''
import re, warnings
warnings.simplefilter("ignore")
from sqllineage.runner import LineageRunner
from sqllineage.core.metadata.dummy import DummyMetaDataProvider
c = %(c)s
H, B, MD = %(H)s, %(B)s, %(md)s
sub = lambda s: re.sub(r"zq[a-z0-9]+", lambda m: c["names"].get(m.group(0), "xx"), s)
def dump(sql, prov):
    lr = LineageRunner(sql, metadata_provider=prov)
    return ([str(t) for t in lr.source_tables], [str(t) for t in lr.target_tables], sorted((str(p[0]), str(p[-1])) for p in lr.get_column_lineage()))
box = {}
class PA(DummyMetaDataProvider):
    calls = 0
    def _get_table_columns(self, schema, table, **kw):
        self.calls += 1
        if self.calls == c["j"]: box["b"] = dump(";\n".join(sub(s) for s in B), DummyMetaDataProvider(dict(MD)))
        return super()._get_table_columns(schema, table, **kw)
a = dump(";\n".join(sub(s) for s in H), PA(dict(MD)))
a0 = dump(";\n".join(sub(s) for s in H), DummyMetaDataProvider(dict(MD)))
b0 = dump(";\n".join(sub(s) for s in B), DummyMetaDataProvider(dict(MD)))
why = None
if a != a0: why = "A differs: %%r vs %%r" %% (a, a0)
elif "b" in box and box["b"] != b0: why = "nested B differs: %%r vs %%r" %% (box["b"], b0)
result = {"ok": why is None, "why": why}
'''



def shared_between_fresh_instances():
    """two freshly built providers / analyzers must not share a mutable attribute object (a mutable default argument or a
    class-level object handed to every instance would make one run's lookups visible to another's)"""
    import types
    import warnings

    from sqllineage.core.metadata.dummy import DummyMetaDataProvider
    from sqllineage.core.parser.sqlfluff.analyzer import SqlFluffLineageAnalyzer
    from sqllineage.core.parser.sqlparse.analyzer import SqlParseLineageAnalyzer

    mk = [lambda: DummyMetaDataProvider(), lambda: DummyMetaDataProvider({"a.b": ["c"]}), lambda: SqlFluffLineageAnalyzer(".", "ansi"),
          lambda: SqlParseLineageAnalyzer()]
    try:
        from sqllineage.core.metadata.sqlalchemy import SQLAlchemyMetaDataProvider

        mk.append(lambda: SQLAlchemyMetaDataProvider("sqlite://"))
    except ImportError:
        pass
    imm = (str, int, float, bool, type(None), tuple, frozenset, type, types.FunctionType, types.ModuleType, bytes)
    out = []
    with warnings.catch_warnings():
        warnings.simplefilter("ignore")
        for f in mk:
            a, b = f(), f()
            for k, v in vars(a).items():
                if v is vars(b).get(k) and not isinstance(v, imm):
                    out.append("%s.%s is one object for every instance" % (type(a).__name__, k))
    return out


class FrameOb(Obligation):
    """no module-level mutable object of sqllineage.* changes across a (lifted, concrete-name) run"""

    def __init__(self):
        self.key = "frame/module-level-state"

    def prepare(self):
        self.sc = LiftedScript(H_STMTS + B_STMTS + [ANON_SUBQUERIES], "ansi")
        self.sc2 = LiftedScript([s for s in H_STMTS], "tsql")

    @staticmethod
    def snapshot():
        import sys

        out = {}
        for name, mod in list(sys.modules.items()):
            if not (name == "sqllineage" or name.startswith("sqllineage.")) or mod is None:
                continue
            for k, v in vars(mod).items():
                if callable(v) and hasattr(v, "cache_info"):
                    # a memoised function (functools.lru_cache / cache): its memo is state that outlives a run
                    out["%s.%s(memo)" % (name, k)] = (id(v), repr(v.cache_info().currsize))
                    continue
                if k.startswith("__") or isinstance(v, type(sys)) or callable(v) and not isinstance(v, (dict, list, set)):
                    # classes: their mutable class attributes
                    if isinstance(v, type) and getattr(v, "__module__", "").startswith("sqllineage"):
                        for ck, cv in vars(v).items():
                            if isinstance(cv, (dict, list, set)):
                                out["%s.%s.%s" % (name, k, ck)] = (id(cv), repr(sorted(map(repr, cv)) if not isinstance(cv, dict) else sorted(map(repr, cv.items()))))
                    continue
                if isinstance(v, (dict, list, set)):
                    out["%s.%s" % (name, k)] = (id(v), repr(sorted(map(repr, v)) if not isinstance(v, dict) else sorted(map(repr, v.items()))))
                elif hasattr(v, "__dict__") and type(v).__module__.startswith("sqllineage"):
                    for ak, av in vars(v).items():
                        if isinstance(av, (dict, list, set)):
                            out["%s.%s.%s" % (name, k, ak)] = (id(av), repr(sorted(map(repr, av)) if not isinstance(av, dict) else sorted(map(repr, av.items()))))
        return out

    def body(self):
        names = Names(default_len=2)
        for i, s in enumerate(self.sc.slots):
            names.set(s, "nm%d" % i)
        import sqllineage

        twin_arm(False)
        if TWIN["on"]:
            sqllineage.twin_probe_state = []     # sensitivity twin: a module-level list that a run changes
        before = self.snapshot()
        changed = []
        from sqllineage.config import SQLLineageConfig

        for sc, prov, tsql in ((self.sc, make_provider(), False), (self.sc, None, False), (self.sc2, None, False), (self.sc2, None, True)):
            if tsql:
                # T-SQL no-semicolon mode fills the analyzer's split cache: it must live and die with the run
                with SQLLineageConfig(TSQL_NO_SEMICOLON=True):
                    dump_runner(sc.runner(names, tsql=True))
            else:
                # every public accessor takes part: summaries, column paths, both exports, the text summary
                lr = sc.runner(names, provider=prov) if prov is not None else sc.runner(names)
                dump_runner(lr)
                lr.to_cytoscape(), lr.to_cytoscape("column"), str(lr)
            if TWIN["on"]:
                TWIN["n"] += 1
                sqllineage.twin_probe_state.append(1)
            after = self.snapshot()
            changed += [k for k in after if before.get(k) != after[k] and "lx_" not in k]
        if TWIN["on"]:
            del sqllineage.twin_probe_state
        changed += shared_between_fresh_instances()
        return Verdict(not changed, {"changed": sorted(set(changed))})

    def concretise(self, verdict, model):
        return verdict.data

    def replay(self, conc, verdict_ok):
        # the same audit on the unmodified library in the replay worker: concrete scripts, every mode
        import inspect
        import textwrap

        from lx import replay as R

        snap = textwrap.dedent(inspect.getsource(FrameOb.snapshot)).replace("@staticmethod\n", "") + "\n" + inspect.getsource(shared_between_fresh_instances)
        r = R.run_code(FRAME_REPLAY % {"snap": snap})
        if not r.get("ok"):
            return {"real_ok": False, "lifted_matches": False, "detail": r}
        res = r["result"]
        return {"real_ok": not res["changed"], "lifted_matches": (not res["changed"]) == verdict_ok, "detail": res}


FRAME_REPLAY = r'''
import warnings
warnings.simplefilter("ignore")
%(snap)s
from sqllineage.runner import LineageRunner
from sqllineage.config import SQLLineageConfig
from sqllineage.core.metadata.dummy import DummyMetaDataProvider
ANSI = "CREATE TABLE s.m AS SELECT ca, cb FROM s.ta;\nINSERT INTO s.w SELECT * FROM s.m;\nSELECT ca FROM s.m AS a JOIN s.tb AS b ON a.id = b.id;\nINSERT INTO s.ty SELECT ca FROM (SELECT ca FROM s.ta) UNION ALL SELECT cb FROM (SELECT cb FROM s.tb)"
TSQL = "INSERT INTO s.w SELECT ca FROM s.ta\nSELECT cb INTO s.v FROM s.w\nSELECT ca FROM s.v"
before = snapshot()
changed = []
def audit():
    after = snapshot()
    return [k for k in after if before.get(k) != after[k]]
def every_accessor(lr):
    lr.source_tables, lr.target_tables, lr.intermediate_tables, lr.get_column_lineage(), lr.to_cytoscape(), lr.to_cytoscape("column"), str(lr)
every_accessor(LineageRunner(ANSI, metadata_provider=DummyMetaDataProvider({"s.ta": ["ca", "cb"]}))); changed += audit()
every_accessor(LineageRunner(ANSI)); changed += audit()
LineageRunner(TSQL.replace("\n", ";\n"), dialect="tsql").get_column_lineage(); changed += audit()
with SQLLineageConfig(TSQL_NO_SEMICOLON=True):
    LineageRunner(TSQL, dialect="tsql").get_column_lineage()
changed += audit()
try:
    LineageRunner("INSERT INTO s.w SELECT ca FROM s.ta;\nSELECT FROM FROM", metadata_provider=DummyMetaDataProvider({"s.ta": ["ca"]})).get_column_lineage()
except Exception:
    pass
changed += audit()
changed += shared_between_fresh_instances()
result = {"changed": sorted(set(changed))}
'''


def obligations(tier, seed):
    return [HistoryOb("clean_history"), HistoryOb("statement_fault"), HistoryOb("provider_fault"), HistoryOb("default_provider"),
            NestedOb(), FrameOb()]
