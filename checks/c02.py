"""
C02  Single-statement column lineage is exact.

Same harness as C01, comparing the (source column -> target column) pairs of get_column_lineage() with the oracle's
dataflow.  Two families per corpus statement: 'tabs' - table, schema, alias, derived-alias and CTE names free, column
names fixed (qualifier / alias / scope resolution under name coincidences); 'cols' - every column name and column
alias free (target naming by explicit list / alias / own name, resolution through derived tables and CTEs by NAME,
positional mapping through set operations).  Unresolved columns are compared as printed (bare column name).
"""
from __future__ import annotations

from checks import corpus, gen
from checks.oracle_ob import OracleOb
from checks.tpl import cross_scope_alias_region
from lx.lifted import set_eq

PID = "C02"
BOUNDS = ("corpus of checks/corpus.py (see C01) incl. 16 expression forms (alias, function, nested function, CASE, nested CASE, CAST, "
          "arithmetic, window, literal, *, q.*) over a join and over a single table, expression depth <= 3, <= 3 relations in scope, "
          "nesting <= 2; free names: up to 5 (quick) / 6 (thorough) per instance, 2-character bodies (thorough: + 3 and mixed); "
          "dialect ansi (thorough: + 5 dialects on a seeded third)")
STUBS = ["sqllineage.runner.split -> statement handles of the template",
         "SqlFluffLineageAnalyzer._list_specific_statement_segment -> pre-parsed, symbolised tree"]
ASSUMPTIONS = ["SQL validity: exposed relation names of one FROM scope distinct; CTE names of one WITH distinct; output column names "
               "of one select list distinct; the written table is none of the tables read (a self-insert has no end-to-end pair)",
               "the display name of an un-aliased expression column is not compared",
               "slots inside scalar subqueries stay concrete (the library re-enters on their text)"]


class PairOb(OracleOb):
    fields = ("pairs", "sources", "targets")
    pid = "C02"
    distinct_outputs = True
    target_apart = True

    def classify(self, names, lifted, exp):
        if self.family in ("tabs", "locals"):
            o = gen.Oracle(names, self.quotes)
            if cross_scope_alias_region(self.st, self.val(names), o.tid):
                return "C02-alias-equals-name-used-in-other-scope"
        if self.tkey == "insert/union_literal_first":
            # shape finding: the first UNION branch has a column without any source (a literal), so the target's column
            # list is one short and the later branches are mapped onto the wrong positions.  Recorded way of being wrong:
            # the tables are right and every pair fed by the FIRST branch is right
            first = [p for p in exp.pairs if any(bool(p[0] == q[0]) and bool(p[1] == q[1]) for q in lifted.pairs)]
            if set_eq(lifted.sources, exp.sources) and set_eq(lifted.targets, exp.targets) and len(first) >= 1:
                return "C02-union-first-branch-literal-shifts-later-branches"
        return None


def _cols(d):
    out = []
    for a, b in d.pairs:
        if not any(bool(a == x) for x in out):
            out.append(a)
    return out


def extra_templates():
    """expression forms kept out of the shared corpus (the other checks' seeded samples stay what they are): the bracketed TAILS of
    a function call - aggregate FILTER (WHERE ...), ordered-set WITHIN GROUP (ORDER BY ...) - next to its arguments and a window"""
    from checks.corpus import Alloc, F_join_on, inner_simple, stmt_of
    from checks.gen import Col, Func, Item, J, Lit, Sel, Tab

    out = []
    forms = {
        "agg_filter": lambda: [Item(Func("sum", [Col(0, "ca")], tail=("filter", Col(0, "cb"))), alias="cx"), Item(Col(1, "cc"))],
        "agg_filter_other_rel": lambda: [Item(Func("sum", [Col(0, "ca")], tail=("filter", Col(1, "cb"))), alias="cx")],
        "nested_in_filter": lambda: [Item(Func("coalesce", [Func("max", [Col(0, "ca")], tail=("filter", Col(1, "cb"))), Col(1, "cc")]), alias="cx")],
    }
    for name, mk in forms.items():
        a = Alloc()
        frm, _ = F_join_on(a, inner_simple)
        out.append(("extra/expr/%s/join_on" % name, "ansi", stmt_of("insert", a, Sel(mk(), frm))))
    a = Alloc()
    frm, _ = F_join_on(a, inner_simple)
    out.append(("extra/expr/within_group/join_on", "postgres",
                stmt_of("insert", a, Sel([Item(Func("percentile_cont", [Lit("0.5")], tail=("within", Col(0, "ca"))), alias="cx"), Item(Col(1, "cb"))], frm))))
    return out


def obligations(tier, seed):
    import random

    rnd = random.Random("c02/%s" % seed)
    tpl = [(k, st) for k, st in corpus.build(tier, seed) if st.kind not in ("bare", "drop", "delete", "truncate", "drop_view", "insert_values")]
    budget = 5 if tier == "quick" else 6
    _b = lambda k: min(budget, 4) if k.startswith("rand/") else budget     # depth-4 random compositions carry many slots
    tabs = [PairOb(k, st, "ansi", "tabs", _b(k), seed) for k, st in tpl]
    cols = [PairOb(k, st, "ansi", "cols", _b(k), seed) for k, st in tpl]
    # third family: statement-local names (derived aliases, CTE names, table aliases) first - coincidences BETWEEN scopes
    locs = [PairOb(k, st, "ansi", "locals", _b(k), seed) for k, st in tpl
            if sum(1 for m in set(__import__("re").findall(r"zq[adc]\d+", __import__("checks.gen", fromlist=["x"]).Renderer().stmt(st)))) >= 2]
    if tier == "quick":
        def pick(obs):
            keep = [o for o in obs if ("/plain" in o.key and "/insert/" in o.key) or "expr/" in o.key or "merge" in o.key or "update" in o.key
                    or "_cols" in o.key or "nodata" in o.key]
            rest = [o for o in obs if o not in keep and "/plain" not in o.key]
            return keep + rnd.sample(rest, len(rest) // 3)
        obs = pick(tabs) + pick(cols) + [o for o in locs if "nested" in o.key or "union" in o.key or "cte" in o.key or "where_in" in o.key][::2]
    else:
        obs = tabs + cols + locs
        _nbase = len(obs)
        for k, st in tpl:
            if "/plain" in k and k.startswith("insert/") or "expr/" in k:
                obs.append(PairOb(k, st, "ansi", "cols", 5, seed, length=3))
                obs.append(PairOb(k, st, "ansi", "cols", 5, seed, lengths=[1, 3, 2]))
        for d in ("sparksql", "postgres", "tsql", "bigquery", "snowflake"):
            sub = [(k, st) for k, st in tpl if st.kind in ("insert", "ctas") and not st.paren]
            for k, st in rnd.sample(sub, len(sub) // 3):
                obs.append(PairOb(k, st, d, "cols", 5, seed))
        if len(obs) > 1100:
            # sized by wall time: every base instance, and a seeded share of the additional length / dialect instances
            extras = obs[_nbase:]
            obs = obs[:_nbase] + rnd.sample(extras, max(0, 1100 - _nbase))
    for k, d, st in extra_templates():
        obs.append(PairOb(k, st, d, "tabs", 4, seed))
        obs.append(PairOb(k, st, d, "cols", 4, seed))
    # every base-table name double-quoted (case kept): un-aliased quoted tables used as column qualifiers
    from lx.tree import PLACEHOLDER as _PH

    for k, st in tpl:
        if k in ("insert/single/plain", "insert/join_noalias/plain", "insert/comma/plain", "insert/schema/plain", "update/from", "merge/table",
                 "insert/join_noalias/cte", "insert/single/where_in", "insert/join_noalias/derived", "insert/join_on/plain"):
            sql = gen.Renderer().stmt(st)
            q = {m.lower(): "dq" for m in _PH.findall(sql) if m.lower()[2] == "t"}
            obs.append(PairOb(k, st, "ansi", "tabs", 4, seed, quotes=q))
    return obs
