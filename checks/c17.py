"""
C17  The visualisation server only discloses files under its roots.

The REAL SQLLineageApp.__call__ and the three routes run on a request whose path is symbolic: k segments,
each a free string of length 0..3 over {'.', 'q', 'z', '_'} (so '..', '.', empty, child, nested child and
sibling-with-common-prefix are all just values), relative / absolute / double-slash-absolute spelling, and a
symbolic root directory name.  pathlib/os.path/open/json are replaced by the LxPath model (lx/pathmodel.py,
self-tested against the real modules); the environment is worst-case (every path exists, every open succeeds).
Monitor at the I/O boundary: every path handed to open()/iterdir() must, after reference resolution, lie
inside the static folder (GET) or the configured root (POST).  Counterexamples are replayed against the
unmodified app with real pathlib on a scratch tree holding a marker at the resolved location.
"""
from __future__ import annotations

import itertools

from lx.check import Obligation, Verdict
from lx.engine import HarnessError, SymStr, Unsupported, eng, sym_value
from lx.lifted import TWIN
from checks.c15 import fork_bool, fork_choice

PID = "C17"
BOUNDS = ("path = k segments (k<=4 quick; thorough adds k=5 for 10 seeded length vectors of the first three segments per route and spelling), each 0..3 chars over {. q z _}; spelling in "
          "{relative, absolute under the working directory, double-slash absolute}; root directory name 2 chars over {q z _} "
          "directly below the working directory (or one level deeper); routes POST /script, /lineage, /directory with f or d, or with BOTH (2+2 segments quick, 2+3 / 3+2 thorough, five spelling pairs, either key order), "
          "GET /<path> with the static folder under a symbolic 2-character name in the scratch tree; additional POST instances with the root AT the working directory "
          "(k=2; thorough 3) or at its parent (k=3; thorough 4), segments then over {. q z _ ~} with os.path.expanduser / Path.expanduser in the model (HOME = a "
          "directory of the scratch tree outside every root; other users' homes are not modelled); POSIX paths, no symlinks")
STUBS = ["pathlib.Path, os, open, json, mimetypes as seen by sqllineage.drawing and sqllineage.utils.helpers -> LxPath model "
         "(worst-case environment: every path exists and can be read)",
         "sqllineage.runner.LineageRunner as seen by the /lineage route -> inert object (analysis is beyond the I/O boundary)"]
ASSUMPTIONS = ["POSIX path semantics without symlinks", "existence disclosure (exists()/is_dir() answers) is not counted as content disclosure"]

SEG_ALPHA = "._qz"
ROOT_ALPHA = "qz_"
ROUTES = [("POST", "/script", "f"), ("POST", "/lineage", "f"), ("POST", "/directory", "f"), ("POST", "/directory", "d"),
          ("GET", None, None)]
FORMS = ["rel", "abs", "dslash"]


class JsonShim:
    def __init__(self, payload):
        self.payload = payload
        self.dumped = []

    def loads(self, body):
        return self.payload

    def dumps(self, data, **k):
        self.dumped.append(data)
        return "{}"


class MimeShim:
    def guess_type(self, p):
        return (None, None)


class DummyRunner:
    def __init__(self, sql, **kw):
        self.sql = sql

    def __str__(self):
        return "summary"

    def to_cytoscape(self, *a):
        return []


class _Body:
    def read(self, n=-1):
        return b"{}"


class PathOb(Obligation):
    max_paths = 300000
    budget_s = 3000

    def __init__(self, method, route, param, form, k, deep_root=False, lens=None, f_first=False, root_at=None):
        self.method, self.route, self.param, self.form, self.k, self.deep_root, self.lens = method, route, param, form, k, deep_root, lens
        self.f_first = f_first
        # root_at: the configured SQL directory is the working directory itself ("cwd", what `sqllineage -g -f x.sql` sets up)
        # or its parent ("parent"); segments may then also contain '~' (os.path.expanduser is part of the model)
        self.root_at = root_at
        self.alpha = SEG_ALPHA + ("~" if root_at else "")
        # a single segment names the root directory itself or something outside it: no file may be opened on any path
        self.vacuous_ok = param == "f" and k == 1 and not root_at
        fk = lambda x: "+".join(map(str, x)) if isinstance(x, tuple) else str(x)
        self.key = "%s%s/%s/%s/k%s%s%s%s" % (method, route or "/<path>", param or "-", fk(form), fk(k), "/deeproot" if deep_root else "",
                                           ("/len" + "".join("%d=%d," % kv for kv in sorted(lens.items()))) if lens else "",
                                           "/f-first" if f_first else "") + (("/root=" + root_at) if root_at else "")

    def describe(self):
        return {"key": self.key, "method": self.method, "route": self.route, "param": self.param, "spelling": self.form,
                "segments": self.k}

    def prepare(self):
        import os as real_os

        import sqllineage.drawing as dr
        import sqllineage.runner as rn
        import sqllineage.utils.helpers as hp
        from lx import pathmodel as P

        for sym in ("SQLLineageApp", "app"):
            if not hasattr(dr, sym):
                raise HarnessError("boundary symbol sqllineage.drawing.%s is gone" % sym)
        import os as _o

        # a scratch location of this worker's own (the replay creates real files there)
        P.CWD[:] = ["var", "tmp", "lxc17-%d" % _o.getpid(), "d1", "d2", "d3", "d4", "w"]
        P.selftest()
        self.P = P
        self.dr = dr
        dr.Path = P.LxPath
        dr.os = P.OsShim()
        dr.open = P.lx_open
        hp.open = P.lx_open
        if hasattr(hp, "os"):
            hp.os = dr.os
        if hasattr(hp, "Path"):
            hp.Path = P.LxPath
        dr.mimetypes = MimeShim()
        rn.LineageRunner = DummyRunner
        if not hasattr(dr, "STATIC_FOLDER"):
            raise HarnessError("boundary symbol sqllineage.drawing.STATIC_FOLDER is gone")

    def body(self):
        P, dr = self.P, self.dr
        cwd = "/" + "/".join(P.CWD)
        rootname = SymStr.var("root", 2, ROOT_ALPHA)

        def spell(tag, k, form, lens):
            segs = []
            for i in range(k):
                n = lens[i] if (lens and i in lens) else fork_choice("%slen%d" % (tag, i), 4)
                segs.append(SymStr.var("%sseg%d" % (tag, i), n, self.alpha) if n else SymStr.const(""))
            tail = SymStr.const("/").join(segs)
            if form == "rel":
                return tail
            if form == "abs":
                return SymStr.const(cwd + "/") + tail
            return SymStr.const("/" + cwd + "/") + tail

        if self.param == "df":
            # both parameters in one request, each spelled independently
            payload = {"d": spell("d", self.k[0], self.form[0], None), "f": spell("f", self.k[1], self.form[1], None)}
            if self.f_first:
                payload = {"f": payload["f"], "d": payload["d"]}
            text = None
        else:
            text = spell("", self.k, self.form, self.lens)
            payload = {self.param: text}
        app = dr.SQLLineageApp()
        for path, h in dr.app.routes.items():
            app.routes[path] = h
        if self.root_at == "cwd":
            root = P.LxPath(cwd)
        elif self.root_at == "parent":
            root = P.LxPath("/" + "/".join(P.CWD[:-1]))
        elif self.deep_root:
            root = P.LxPath(SymStr.const(cwd + "/zq/") + rootname)
        else:
            root = P.LxPath(SymStr.const(cwd + "/") + rootname)
        app.root_path = root
        dr.app.root_path = root
        status = []
        P.EVENTS.clear()
        P.KNOWN_DIRS[:] = [P.LxPath(cwd), root, P.LxPath(P.home())]
        if self.method == "POST":
            js = JsonShim(payload)
            dr.json = js
            environ = {"REQUEST_METHOD": "POST", "PATH_INFO": self.route, "CONTENT_LENGTH": "2", "wsgi.input": _Body()}
            allowed = root
        else:
            js = JsonShim({})
            dr.json = js
            environ = {"REQUEST_METHOD": "GET", "PATH_INFO": SymStr.const("/") + text if self.form == "rel" else text}
            # the static folder is placed in the scratch tree under a SYMBOLIC name (an absolute STATIC_FOLDER replaces the
            # package directory in the app's joinpath), so that a sibling whose name merely starts with it is expressible
            staticname = SymStr.var("static", 2, ROOT_ALPHA)
            dr.STATIC_FOLDER = SymStr.const(cwd + "/st/") + staticname
            allowed = P.LxPath(dr.STATIC_FOLDER)
            P.KNOWN_DIRS[:] = [P.LxPath(cwd), P.LxPath(cwd + "/st"), allowed]
        escaped = None
        try:
            app(environ, lambda s, h: status.append(s))
        except Unsupported:
            raise
        except Exception as e:  # an internal error escaping the handler: not a disclosure, recorded for information
            escaped = type(e).__name__
        if TWIN["on"]:       # sensitivity twin: the app opened a file outside what it may disclose
            TWIN["n"] += 1
            P.EVENTS.append(("open", P.LxPath("/etc/passwd")))
        bad = None
        for kind, p in list(P.EVENTS):
            if kind in ("open", "iterdir"):
                if not P.is_inside(p, allowed):
                    bad = (kind, str(p))
                    break
        return Verdict(bad is None, {"method": self.method, "route": self.route, "param": self.param, "text": environ["PATH_INFO"] if self.method == "GET" else text,
                                     "payload": dict(payload) if self.method == "POST" else None,
                                     "rootname": rootname, "staticname": staticname if self.method == "GET" else None,
                                     "deep_root": self.deep_root, "root_at": self.root_at, "status": status[:1], "event": bad,
                                     "escaped": escaped},
                       nontrivial=bool(P.EVENTS))

    def replay(self, conc, verdict_ok):
        from lx import replay as R

        if verdict_ok:
            code = REPLAY % {"c": repr(conc), "cwd": repr("/" + "/".join(self.P.CWD))}
            r = R.run_code(code)
            if not r.get("ok"):
                return {"real_ok": False, "lifted_matches": False, "detail": r}
            res = r["result"]
            # a passing witness: the real app must not leak the marker, and must answer with the same status class
            lm = (not res["leak"]) and (not conc["status"] or not res["status"] or conc["status"][0][:3] == res["status"][:3]
                                        or (conc["status"][0][:3] == "200" and (res["status"][:3] in ("404", "400") or res["status"].startswith("escaped"))))
            return {"real_ok": not res["leak"], "lifted_matches": lm, "detail": res}
        code = REPLAY % {"c": repr(conc), "cwd": repr("/" + "/".join(self.P.CWD))}
        r = R.run_code(code)
        if not r.get("ok"):
            return {"real_ok": False, "lifted_matches": False, "detail": r}
        res = r["result"]
        return {"real_ok": not res["leak"], "lifted_matches": res["leak"], "detail": res}


# Replay: real app, real pathlib, scratch tree under /var/tmp/lxc17.  The file/directory the request resolves to is
# created with a marker (for a directory: a marker entry inside it) when it lies OUTSIDE the root; a leak is the
# marker showing up in the response body.
REPLAY = r'''
import io, json, os, shutil, sys
c = %(c)s
CWD = %(cwd)s
SCRATCH = "/" + "/".join(CWD.split("/")[1:4])
shutil.rmtree(SCRATCH, ignore_errors=True)
os.makedirs(CWD)
old = os.getcwd()
os.chdir(CWD)
try:
    import sqllineage.drawing as dr
    rootdir = os.path.join(CWD, "zq", c["rootname"]) if c["deep_root"] else os.path.join(CWD, c["rootname"])
    if c.get("root_at") == "cwd": rootdir = CWD
    if c.get("root_at") == "parent": rootdir = os.path.dirname(CWD)
    os.makedirs(rootdir, exist_ok=True)
    HOME = SCRATCH + "/home"
    os.makedirs(HOME, exist_ok=True)
    os.environ["HOME"] = HOME
    with open(os.path.join(rootdir, "inside.sql"), "w") as f: f.write("select 1 from inside_tab")
    MARK = "MARKERZ9"
    text = c["text"]
    if c["method"] == "GET":
        staticdir = os.path.join(CWD, "st", c["staticname"])
        os.makedirs(staticdir, exist_ok=True)
        with open(os.path.join(staticdir, "index.html"), "w") as f: f.write("<html>inside</html>")
        dr.STATIC_FOLDER = staticdir
        rootdir = staticdir            # what counts as inside for the planting below
    def plant(target, as_dir):
        # worst-case environment: every directory the spelled path walks through exists (so 'x/..' resolves)
        segs = [x for x in target.split("/") if x not in ("", ".")]
        cur = "/" if target.startswith("/") else CWD
        for i, sg in enumerate(segs):
            last = i == len(segs) - 1
            if sg == "..":
                cur = os.path.dirname(cur) or "/"
                continue
            nxt = os.path.join(cur, sg)
            if SCRATCH == nxt or SCRATCH.startswith(nxt + "/"):
                cur = nxt
                continue
            if not nxt.startswith(SCRATCH + "/"):
                return None
            if last and not as_dir:
                inside = nxt.startswith(rootdir + "/")
                if not os.path.exists(nxt):
                    open(nxt, "w").write("select 1 from %%s" %% (MARK if not inside else "inside_tab"))
                return nxt
            os.makedirs(nxt, exist_ok=True)
            cur = nxt
        if not cur.startswith(SCRATCH):
            return None
        inside = cur == rootdir or cur.startswith(rootdir + "/")
        if os.path.isdir(cur) and not inside:
            open(os.path.join(cur, MARK + ".sql"), "w").write("select 1 from " + MARK)
        return cur
    if c["method"] == "POST":
        payload = c["payload"]
        for prm, txt in payload.items():
            try:
                if txt == "~" or txt.startswith("~/"):
                    # what the spelling means to os.path.expanduser exists too (outside the root, with a marker)
                    plant(HOME + txt[1:], prm == "d")
                if prm == "d":
                    plant(txt, True)
                elif c["route"] == "/directory":
                    plant(str(__import__("pathlib").PurePosixPath(txt).parent), True)
                else:
                    plant(txt, False)
            except OSError:
                pass  # d and f ask for a directory and a file at one place: the environment cannot be worst-case for both
        dr.app.root_path = __import__("pathlib").Path(rootdir)
        body = json.dumps(payload).encode()
        env = {"REQUEST_METHOD": "POST", "PATH_INFO": c["route"], "CONTENT_LENGTH": str(len(body)), "wsgi.input": io.BytesIO(body)}
    else:
        # GET: whatever the path resolves to relative to the static folder or, if absolute, by itself
        static = staticdir
        p = text
        tgt = None
        stripped = p.strip("/")
        for cand in (p, "/" + stripped, os.path.join(static, stripped)):
            n = os.path.normpath(cand)
            if n.startswith(SCRATCH + "/"):
                tgt = plant(n, False)
        env = {"REQUEST_METHOD": "GET", "PATH_INFO": p}
    st = []
    # observe the real I/O boundary too: which paths does the app try to open / list?
    if not hasattr(sys, "_lx_audit_installed"):
        sys._lx_audit_installed = True
        sys._lx_audit = None
        def _hook(ev, args):
            if sys._lx_audit is not None and ev in ("open", "os.scandir", "os.listdir") and args and isinstance(args[0], (str, bytes, os.PathLike)):
                sys._lx_audit.append((ev, os.fsdecode(args[0])))
        sys.addaudithook(_hook)
    sys._lx_audit = []
    try:
        out = dr.app(env, lambda s, h: st.append(s))
    except OSError as e:
        # an OS error class the handler does not map to 404 (e.g. NotADirectoryError for 'file/.') escapes the app: no
        # response, hence no disclosure (the escape itself is C10's subject)
        out, st = [], ["escaped " + type(e).__name__]
    finally:
        tried, sys._lx_audit = sys._lx_audit, None
    blob = b"".join(out)
    norm = lambda p: "/" + os.path.normpath(os.path.join(CWD, p)).lstrip("/")  # POSIX normpath keeps a leading '//'
    allowed = rootdir
    CONFIG_NAMES = (".sqlfluff", "setup.cfg", "tox.ini", "pep8.ini", "pyproject.toml", ".sqlfluffignore")
    # what counts: open() of a non-directory and scandir() (pathlib's iterdir); sqlfluff's own configuration
    # discovery (os.listdir of the working directory's ancestors, its config file names) does not
    outside = [p for ev, p in tried if ev in ("open", "os.scandir")
               and not (norm(p) == allowed or norm(p).startswith(allowed + "/"))
               and os.path.basename(p) not in CONFIG_NAMES
               and not (ev == "open" and os.path.isdir(norm(p)))
               and (norm(p).startswith(SCRATCH) or (c["event"] and norm(p) == norm(c["event"][1])))]
    # a 200 answer of /directory names the directory it listed (pathlib lists through os.listdir, which the filter above
    # cannot tell from sqlfluff's configuration discovery)
    listed_outside = None
    if c["method"] == "POST" and c["route"] == "/directory" and st and st[0].startswith("200"):
        try:
            listed = norm(json.loads(blob)["id"])
            if not (listed == allowed or listed.startswith(allowed + "/")):
                listed_outside = listed
        except (ValueError, KeyError):
            pass
    result = {"status": st[0] if st else None, "leak": MARK.encode() in blob or bool(outside) or listed_outside is not None,
              "content_leak": MARK.encode() in blob, "listed_outside": listed_outside,
              "outside_io_attempted": outside[:3], "body": blob[:200].decode("utf-8", "replace")}
finally:
    os.chdir(old)
    shutil.rmtree(SCRATCH, ignore_errors=True)
'''


def obligations(tier, seed):
    import random

    obs = []
    ks = [1, 2, 3, 4]
    for (m, r, p) in ROUTES:
        for form in FORMS:
            for k in ks:
                obs.append(PathOb(m, r, p, form, k))
            if tier == "thorough":
                # five segments: the lengths of the first three segments fixed per obligation (a seeded share of the
                # 64 vectors), the last two forked
                rnd = random.Random("%s/%s/%s/%s" % (seed, m, r, form))
                vecs = list(itertools.product(range(4), repeat=3))
                for v in rnd.sample(vecs, 10):
                    obs.append(PathOb(m, r, p, form, 5, lens={0: v[0], 1: v[1], 2: v[2]}))
        obs.append(PathOb(m, r, p, "rel", 3, deep_root=True))
        obs.append(PathOb(m, r, p, "abs", 3, deep_root=True))
        if m == "POST":
            # the SQL directory is the working directory itself / its parent; '~' may occur in a segment
            obs.append(PathOb(m, r, p, "rel", 2, root_at="cwd"))
            obs.append(PathOb(m, r, p, "rel", 3, root_at="parent"))
            if tier == "thorough":
                obs.append(PathOb(m, r, p, "rel", 3, root_at="cwd"))
                obs.append(PathOb(m, r, p, "abs", 3, root_at="cwd"))
                obs.append(PathOb(m, r, p, "rel", 4, root_at="parent"))
        if tier == "thorough":
            obs.append(PathOb(m, r, p, "rel", 4, deep_root=True))
            obs.append(PathOb(m, r, p, "dslash", 4, deep_root=True))
    # both parameters in one request (the routes prefer f, the guard must check each one present)
    pairs = [("rel", "rel"), ("abs", "abs"), ("rel", "abs"), ("abs", "rel"), ("dslash", "rel")]
    for r in ("/script", "/lineage", "/directory"):
        for i, fm in enumerate(pairs):
            obs.append(PathOb("POST", r, "df", fm, (2, 2), f_first=bool(i % 2)))
            if tier == "thorough":
                obs.append(PathOb("POST", r, "df", fm, (2, 3), f_first=not i % 2))
                obs.append(PathOb("POST", r, "df", fm, (3, 2), f_first=bool(i % 2)))
    return obs
