"""
C16  Identifiers denote the same entity wherever they appear.

Harness instances = syntactic position x quote style x dialect.  The spelled name is a free token (body
characters over letters of both cases, '_' and digits; quote style fixed per instance because it changes
lexing).  Assertion: the entity printed for that spelling equals the property's normalisation (unquoted ->
case-folded, quoted -> case kept, only quotes lost) AT EVERY POSITION - so the same spelling denotes the
same entity as source, target, qualifier, alias, column, column list and across two statements, and two
unquoted spellings are equal iff equal after case folding.  Plus kernels: dotted split at the last dot,
part limit, eq => hash-eq for all entity classes, idempotence of the normalisation on its own output
where the code re-applies it.
"""
from __future__ import annotations

from checks.common import D, DIALECT_QUOTES, Expect, TemplateObligation, cat, has_upper, q, spec_norm
from lx.check import Obligation, Verdict
from lx.engine import SymStr, Unsupported, eng, f_and, f_not, mkbool, rawb
from lx.lifted import dump_runner
from lx.tree import BODY_FIRST, BODY_REST, Names

PID = "C16"
BOUNDS = ("identifier bodies: ASCII, first char a letter of {q,z,j,Q,Z,J}, then {q,z,j,Q,Z,J,_,0,7}; body length 2 (quick) "
          "and 1..3 (thorough); quote style in {none, \"..\", `..`, [..]} as lexed by the dialect; 1-3 dotted parts; "
          "positions: FROM, target, qualifier, alias, column ref, INSERT column list, CREATE VIEW column list, "
          "schema qualifier, 3-part name, CTE name (also as qualifier), across two statements")
STUBS = ["sqllineage.runner.split -> statement handles of the template",
         "SqlFluffLineageAnalyzer._list_specific_statement_segment -> pre-parsed, symbolised tree"]
ASSUMPTIONS = ["sqlfluff yields the same tree shape for every identifier body over the alphabet (validated per replayed witness)",
               "hash() of a str is collision-free",
               "non-ASCII identifiers, identifiers containing quote characters or dots inside quotes are outside the claim"]

T = lambda n: cat(D, ".", n)          # table printed under the default schema
C = lambda t, c: cat(t, ".", c)       # column printed under its table

# position -> (statements, expected(spec of N) -> Expect, which finding regions apply)
# {N} is the spelled name (with its quotes); constants use letters outside the body alphabet.
POSITIONS = {
    "from": (["SELECT ca FROM {N}"],
             lambda n: Expect(sources=[T(n)])),
    "target": (["INSERT INTO {N} SELECT ca FROM tsrc"],
               lambda n: Expect(sources=[T("tsrc")], targets=[T(n)], pairs=[(C(T("tsrc"), "ca"), C(T(n), "ca"))])),
    "qualifier": (["INSERT INTO ttgt SELECT {N}.ca FROM {N}"],
                  lambda n: Expect(sources=[T(n)], targets=[T("ttgt")], pairs=[(C(T(n), "ca"), C(T("ttgt"), "ca"))])),
    "qualifier_join": (["INSERT INTO ttgt SELECT {N}.ca FROM tsrc JOIN {N} ON tsrc.i = {N}.i"],
                       lambda n: Expect(sources=[T(n), T("tsrc")], targets=[T("ttgt")],
                                        pairs=[(C(T(n), "ca"), C(T("ttgt"), "ca"))])),
    "alias": (["INSERT INTO ttgt SELECT {N}.ca FROM tsrc AS {N} JOIN tsrd AS x ON {N}.i = x.i"],
              lambda n: Expect(sources=[T("tsrc"), T("tsrd")], targets=[T("ttgt")],
                               pairs=[(C(T("tsrc"), "ca"), C(T("ttgt"), "ca"))])),
    "derived_alias": (["INSERT INTO ttgt SELECT {N}.ca FROM (SELECT ca FROM tsrc) AS {N}"],
                      lambda n: Expect(sources=[T("tsrc")], targets=[T("ttgt")],
                                       pairs=[(C(T("tsrc"), "ca"), C(T("ttgt"), "ca"))])),
    "cte_name": (["INSERT INTO ttgt WITH {N} AS (SELECT ca FROM tsrc) SELECT ca FROM {N}"],
                 lambda n: Expect(sources=[T("tsrc")], targets=[T("ttgt")],
                                  pairs=[(C(T("tsrc"), "ca"), C(T("ttgt"), "ca"))])),
    "cte_name_qualifier": (["INSERT INTO ttgt WITH {N} AS (SELECT ca FROM tsrc) SELECT {N}.ca FROM {N}"],
                           lambda n: Expect(sources=[T("tsrc")], targets=[T("ttgt")],
                                            pairs=[(C(T("tsrc"), "ca"), C(T("ttgt"), "ca"))])),
    "cte_name_qualifier_join": (["INSERT INTO ttgt WITH {N} AS (SELECT ca, i FROM tsrc) SELECT {N}.ca FROM {N} JOIN tsrd AS x ON {N}.i = x.i"],
                                lambda n: Expect(sources=[T("tsrc"), T("tsrd")], targets=[T("ttgt")],
                                                 pairs=[(C(T("tsrc"), "ca"), C(T("ttgt"), "ca"))])),
    "two_stmt_table": (["INSERT INTO {N} SELECT ca FROM tsrc", "INSERT INTO ttgt SELECT ca FROM {N}"],
                       lambda n: Expect(sources=[T("tsrc")], targets=[T("ttgt")], intermediates=[T(n)],
                                        pairs=[(C(T("tsrc"), "ca"), C(T("ttgt"), "ca"))])),
    "column": (["INSERT INTO ttgt SELECT {N} FROM tsrc"],
               lambda n: Expect(sources=[T("tsrc")], targets=[T("ttgt")], pairs=[(C(T("tsrc"), n), C(T("ttgt"), n))])),
    "column_qualified": (["INSERT INTO ttgt SELECT tsrc.{N} FROM tsrc"],
                         lambda n: Expect(sources=[T("tsrc")], targets=[T("ttgt")],
                                          pairs=[(C(T("tsrc"), n), C(T("ttgt"), n))])),
    "column_alias": (["INSERT INTO ttgt SELECT ca AS {N} FROM tsrc"],
                     lambda n: Expect(sources=[T("tsrc")], targets=[T("ttgt")],
                                      pairs=[(C(T("tsrc"), "ca"), C(T("ttgt"), n))])),
    "column_in_function": (["INSERT INTO ttgt SELECT max({N}) AS m FROM tsrc"],
                           lambda n: Expect(sources=[T("tsrc")], targets=[T("ttgt")],
                                            pairs=[(C(T("tsrc"), n), C(T("ttgt"), "m"))])),
    "insert_column_list": (["INSERT INTO ttgt ({N}) SELECT ca FROM tsrc"],
                           lambda n: Expect(sources=[T("tsrc")], targets=[T("ttgt")],
                                            pairs=[(C(T("tsrc"), "ca"), C(T("ttgt"), n))])),
    "view_column_list": (["CREATE VIEW ttgt ({N}) AS SELECT ca FROM tsrc"],
                         lambda n: Expect(sources=[T("tsrc")], targets=[T("ttgt")],
                                          pairs=[(C(T("tsrc"), "ca"), C(T("ttgt"), n))])),
    "two_stmt_column": (["INSERT INTO tmid SELECT {N} FROM tsrc", "INSERT INTO ttgt SELECT {N} FROM tmid"],
                        lambda n: Expect(sources=[T("tsrc")], targets=[T("ttgt")], intermediates=[T("tmid")],
                                         pairs=[(C(T("tsrc"), n), C(T("ttgt"), n))])),
    "two_stmt_column_list": (["INSERT INTO tmid ({N}) SELECT ca FROM tsrc", "INSERT INTO ttgt SELECT {N} FROM tmid"],
                             lambda n: Expect(sources=[T("tsrc")], targets=[T("ttgt")], intermediates=[T("tmid")],
                                              pairs=[(C(T("tsrc"), "ca"), C(T("ttgt"), n))])),
    "schema_from": (["SELECT ca FROM {N}.tsrc"],
                    lambda n: Expect(sources=[cat(n, ".tsrc")])),
    "schema_target": (["INSERT INTO {N}.ttgt SELECT ca FROM {N}.tsrc"],
                      lambda n: Expect(sources=[cat(n, ".tsrc")], targets=[cat(n, ".ttgt")],
                                       pairs=[(cat(n, ".tsrc.ca"), cat(n, ".ttgt.ca"))])),
    "schema_qualifier": (["INSERT INTO ttgt SELECT {N}.tsrc.ca FROM {N}.tsrc"],
                         lambda n: Expect(sources=[cat(n, ".tsrc")], targets=[T("ttgt")],
                                          pairs=[(cat(n, ".tsrc.ca"), C(T("ttgt"), "ca"))])),
    "table_under_schema": (["INSERT INTO ttgt SELECT {N}.ca FROM sch.{N}"],
                           lambda n: Expect(sources=[cat("sch.", n)], targets=[T("ttgt")],
                                            pairs=[(cat("sch.", n, ".ca"), C(T("ttgt"), "ca"))])),
    "three_part_db": (["SELECT ca FROM {N}.sch.tsrc"],
                      lambda n: Expect(sources=[cat(n, ".sch.tsrc")])),
    "three_part_table": (["SELECT ca FROM db.sch.{N}"],
                         lambda n: Expect(sources=[cat("db.sch.", n)])),
}

# positions at which the unchanged tree is known to mis-normalise (see known_findings.json)
SCHEMA_POS = {"schema_from", "schema_target", "schema_qualifier", "three_part_db"}


class PositionOb(TemplateObligation):
    def __init__(self, pos, quote, dialect, length):
        self.pos, self.quote, self.dialect, self.length = pos, quote, dialect, length
        self.key = "pos/%s/%s/%s/len%d" % (pos, quote, dialect, length)
        stm, self.expect = POSITIONS[pos]
        self.stmts = [s.replace("{N}", q("zqn", quote)) for s in stm]

    def body(self):
        names = Names(default_len=self.length, first=BODY_FIRST, rest=BODY_REST)
        n = names["zqn"]
        lifted = dump_runner(self.script.runner(names))
        spec = spec_norm(n, self.quote)
        exp = self.expect(spec)
        ok = self.compare(lifted, exp)
        finding = None
        if not ok and self.quote != "none":
            # region of the recorded double-normalisation finding (the column one was repaired in /repo): quoted spelling with an upper-case
            # letter, and the wrong answer is exactly "that name case-folded" at that position
            if bool(has_upper(n)):
                if self.pos in SCHEMA_POS and self.compare(lifted, self.expect(spec.lower())):
                    finding = "C16-quoted-schema-folded"
        return self.verdict(names, lifted, exp, ok=ok, finding=finding)


# ---------------------------------------------------------------------------------------------
# kernels on the model classes (no parser)
# ---------------------------------------------------------------------------------------------

class KernelOb(Obligation):
    twin_enabled = False

    def __init__(self, name, length):
        self.name, self.length = name, length
        self.key = "kernel/%s/len%d" % (name, length)

    def describe(self):
        return {"key": self.key, "kernel": self.name}

    def tok(self, tag, quote=None):
        """a free identifier token: forks over the quote style unless given"""
        body = SymStr.var(tag, self.length, BODY_REST, BODY_FIRST)
        if quote is None:
            k = eng().int_var(tag + "#q", 0, 3)
            for i, qn in enumerate(["none", "dq", "bt", "br"]):
                if eng().decide(k == i):
                    quote = qn
                    break
        a, b = {"none": ("", ""), "dq": ('"', '"'), "bt": ("`", "`"), "br": ("[", "]")}[quote]
        return cat(a, body, b), spec_norm(body, quote), quote

    def body(self):
        from sqllineage.core.models import Column, Path, Schema, SubQuery, Table
        from sqllineage.exceptions import SQLLineageException
        from sqllineage.utils.helpers import escape_identifier_name
        from lx.engine import lx_hash

        k = self.name
        if k == "normalise":
            x, sx, qx = self.tok("x")
            got = escape_identifier_name(x)
            return Verdict(bool(got == sx), {"x": x, "got": got, "want": sx})
        if k == "unquoted_equal_iff_casefold":
            x, sx, _ = self.tok("x", "none")
            y, sy, _ = self.tok("y", "none")
            same = bool(Table(x) == Table(y))
            want = bool(x.lower() == y.lower())
            return Verdict(same == want, {"x": x, "y": y, "equal": same, "want": want})
        if k == "quoted_keeps_case":
            x, sx, qx = self.tok("x")
            y, sy, qy = self.tok("y")
            if qx == "none" or qy == "none":
                return Verdict(True, {"x": x, "y": y}, nontrivial=False)
            same = bool(Table(x) == Table(y))
            want = bool(sx == sy)
            return Verdict(same == want, {"x": x, "y": y, "equal": same, "want": want})
        if k == "dotted_split":
            x, sx, _ = self.tok("x")
            y, sy, _ = self.tok("y")
            t1 = Table(cat(x, ".", y))
            import warnings
            with warnings.catch_warnings():
                warnings.simplefilter("ignore")
                t2 = Table(y, Schema(x))
            ok = bool(t1 == t2) and bool(str(t1) == cat(sx, ".", sy)) and bool(str(t1.schema) == sx) and bool(t1.raw_name == sy)
            fid = None
            return Verdict(ok, {"x": x, "y": y, "t1": str(t1), "t2": str(t2), "want": cat(sx, ".", sy)}, fid)
        if k == "three_parts":
            # a raw three-part string: the two qualifier parts unquoted (quoted parts reach Table() only through the
            # parser path, which is covered by the three_part_* positions), the table part any spelling
            x, sx, _ = self.tok("x", "none")
            y, sy, _ = self.tok("y", "none")
            z, sz, _ = self.tok("z")
            t = Table(cat(x, ".", y, ".", z))
            ok = bool(str(t) == cat(sx, ".", sy, ".", sz)) and bool(t.raw_name == sz)
            return Verdict(ok, {"x": x, "y": y, "z": z, "t": str(t), "want": cat(sx, ".", sy, ".", sz)})
        if k == "four_parts_rejected":
            x, _, _ = self.tok("x", "none")
            try:
                Table(cat(x, ".b.c.d"))
                return Verdict(False, {"x": x, "raised": False})
            except SQLLineageException:
                return Verdict(True, {"x": x, "raised": True})
        if k == "eq_implies_hash":
            x, _, _ = self.tok("x")
            y, _, _ = self.tok("y")
            ok = True
            for mk in (lambda s: Table(s), lambda s: Schema(s), lambda s: Path(s), lambda s: Column(s),
                       lambda s: SubQuery(None, s, None), lambda s: SubQuery(None, "q", s)):
                a, b = mk(x), mk(y)
                if bool(a == b):
                    ha, hb = lx_hash(a), lx_hash(b)
                    if not bool(getattr(ha, "origin", ha) == getattr(hb, "origin", hb)):
                        ok = False
            ca, cb = Column(x), Column(y)
            ca.parent, cb.parent = Table("ta"), Table("ta")
            if bool(ca == cb) and not bool(lx_hash(ca).origin == lx_hash(cb).origin):
                ok = False
            return Verdict(ok, {"x": x, "y": y})
        if k == "column_roundtrip":
            # a column written under a spelling is found again when read under the same spelling (model level)
            x, sx, qx = self.tok("x")
            tgt = Column(x)
            tgt.parent = Table("tmid")
            src = Column(x)
            (got,) = src.to_source_columns({SymStr.const("tmid"): Table("tmid")})
            ok = bool(got == tgt)
            return Verdict(ok, {"x": x, "written": str(tgt), "read": str(got)})
        raise Unsupported("unknown kernel " + k)

    def replay(self, conc, verdict_ok):
        from lx import replay as R

        code = KERNEL_REPLAY[self.name] % {"c": repr(conc)}
        r = R.run_code(code)
        if not r.get("ok"):
            return {"real_ok": False, "lifted_matches": False, "detail": r}
        res = r["result"]
        return {"real_ok": bool(res["ok"]), "lifted_matches": bool(res["ok"]) == bool(verdict_ok), "detail": res}


_PRE = """
import warnings
warnings.simplefilter('ignore')
from sqllineage.core.models import Column, Path, Schema, SubQuery, Table
from sqllineage.exceptions import SQLLineageException
from sqllineage.utils.helpers import escape_identifier_name
c = %(c)s
def spec(t):
    if t[:1] in '"`' and t[-1:] == t[:1]: return t[1:-1]
    if t[:1] == '[' and t[-1:] == ']': return t[1:-1]
    return t.lower()
"""
KERNEL_REPLAY = {
    "normalise": _PRE + "result = {'ok': escape_identifier_name(c['x']) == spec(c['x']), 'got': escape_identifier_name(c['x'])}",
    "unquoted_equal_iff_casefold": _PRE + "result = {'ok': (Table(c['x']) == Table(c['y'])) == (c['x'].lower() == c['y'].lower())}",
    "quoted_keeps_case": _PRE + "result = {'ok': (Table(c['x']) == Table(c['y'])) == (spec(c['x']) == spec(c['y']))}",
    "dotted_split": _PRE + "t1 = Table(c['x'] + '.' + c['y']); t2 = Table(c['y'], Schema(c['x']))\n"
                           "result = {'ok': t1 == t2 and str(t1) == spec(c['x']) + '.' + spec(c['y']) and t1.raw_name == spec(c['y']), 't1': str(t1), 't2': str(t2)}",
    "three_parts": _PRE + "t = Table(c['x'] + '.' + c['y'] + '.' + c['z'])\n"
                          "result = {'ok': str(t) == '.'.join(spec(c[k]) for k in 'xyz') and t.raw_name == spec(c['z']), 't': str(t)}",
    "four_parts_rejected": _PRE + "ok = False\ntry:\n    Table(c['x'] + '.b.c.d')\nexcept SQLLineageException:\n    ok = True\nresult = {'ok': ok}",
    "eq_implies_hash": _PRE + "ok = True\nfor mk in (Table, Schema, Path, Column, lambda s: SubQuery(None, s, None), lambda s: SubQuery(None, 'q', s)):\n"
                              "    a, b = mk(c['x']), mk(c['y'])\n    if a == b and hash(a) != hash(b): ok = False\nresult = {'ok': ok}",
    "column_roundtrip": _PRE + "tgt = Column(c['x']); tgt.parent = Table('tmid'); (got,) = Column(c['x']).to_source_columns({'tmid': Table('tmid')})\n"
                               "result = {'ok': got == tgt, 'written': str(tgt), 'read': str(got), 'folded': got.raw_name == spec(c['x']).lower()}",
}


class StringModelOb(Obligation):
    """self-test of the lifting: every modelled str method of SymStr against Python's str, on EVERY path's model"""

    validate_every = 1
    OPS = {
        "lower": lambda s: s.lower(), "upper": lambda s: s.upper(),
        "strip_quotes": lambda s: s.strip('"'), "strip_brackets": lambda s: s.strip("[]"), "lstrip_dot": lambda s: s.lstrip("."),
        "rstrip_space": lambda s: s.rstrip(), "split_dot": lambda s: s.split("."), "rsplit_dot_1": lambda s: s.rsplit(".", 1),
        "split_ab": lambda s: s.split("a."), "startswith_bracket": lambda s: bool(s.startswith("[")), "endswith_bracket": lambda s: bool(s.endswith("]")),
        "contains_quote": lambda s: '"' in s, "contains_two": lambda s: "a." in s, "eq_const": lambda s: bool(s == 'a."'), "lt_const": lambda s: bool(s < "a.A"),
        "replace_dot": lambda s: s.replace(".", "::"), "find_dot": lambda s: s.find("."), "removeprefix": lambda s: s.removeprefix("a"),
        "partition_dot": lambda s: s.partition("."), "rpartition_dot": lambda s: s.rpartition("."), "concat": lambda s: "<" + s + ">",
        "slice": lambda s: s[1:], "index0": lambda s: s[0], "isnumeric": lambda s: bool(s.isnumeric()), "join": lambda s: s.join(["x", "y", "z"]),
        "count_dot": lambda s: s.count("."), "title_unsupported_when_symbolic": None,
    }

    def __init__(self, op, length):
        self.op, self.length = op, length
        self.key = "string-model/%s/len%d" % (op, length)

    def describe(self):
        return {"key": self.key}

    def body(self):
        s = SymStr.var("s", self.length, 'aA".[] 7')
        f = self.OPS[self.op]
        if f is None:
            try:
                s.title()
                return Verdict(False, {"operand": s, "result": "no Unsupported raised"})
            except Unsupported:
                return Verdict(True, {"operand": s, "result": None})
        return Verdict(True, {"operand": s, "result": f(s)})

    def replay(self, conc, verdict_ok):
        f = self.OPS[self.op]
        if f is None:
            return {"real_ok": True, "lifted_matches": True, "detail": "unsupported method refused"}
        want = f(conc["operand"])
        got = conc["result"]
        norm = lambda x: list(x) if isinstance(x, (list, tuple)) else x
        same = norm(want) == norm(got)
        return {"real_ok": True, "lifted_matches": same, "detail": {"operand": conc["operand"], "model": got, "python": want}}


def obligations(tier, seed):
    obs = []
    for op in StringModelOb.OPS:
        for ln in ([3] if tier == "quick" else [1, 2, 3, 4]):
            obs.append(StringModelOb(op, ln))
    lens = [2] if tier == "quick" else [1, 2, 3]
    dialects = ["ansi", "sparksql", "tsql"] if tier == "quick" else ["ansi", "sparksql", "tsql", "postgres", "bigquery", "mysql", "snowflake"]
    for d in dialects:
        for qn in DIALECT_QUOTES[d]:
            if d != "ansi" and qn == "none" and tier == "quick":
                continue
            for pos in POSITIONS:
                if pos == "view_column_list" and d in ("bigquery", "tsql"):
                    # the tsql grammar yields a different tree for the view column list (the list is ignored for any
                    # spelling): a dialect-shape matter owned by C09/C02, not an identifier-identity one
                    continue
                for ln in lens:
                    if ln != 2 and d != "ansi":
                        continue
                    obs.append(PositionOb(pos, qn, d, ln))
    for k in KERNEL_REPLAY:
        for ln in lens:
            obs.append(KernelOb(k, ln))
    return obs
