"""
C11  Analysis is deterministic.

Each small template (<=3 tables, <=3 columns, <=2 statements) runs twice inside one path space: once in the baseline
set-iteration order and once under SYMBOLIC HASH RANKS (lx/order.py): every distinct printed name gets a free rank and
every iteration over a builtin set of the code under test follows the ranks.  Names stay free as well, because the known
nondeterminism needs a coincidence to show.  Assertion: canonical dumps (summary, sorted tables, column paths, both
exports) are equal up to anonymous-subquery names.  A counterexample is a naming plus a ranking; it is rendered to SQL
and run on the unmodified library in fresh processes under PYTHONHASHSEED 0..N; it is reported only if two seeds really
disagree (a ranking no seed realises is over-approximation: inconclusive, not a violation).
Second family: accessor order / repetition on one runner object.
"""
from __future__ import annotations

from checks.c13 import K, low
from checks.c15 import fork_bool, fork_choice
from checks.common import TemplateObligation
from lx.check import Verdict
from lx.engine import SymStr, eng, f_not, sym_value
from lx.lifted import TWIN, LiftedScript, norm_anon
from lx.order import symbolic_order
from lx.tree import Names

PID = "C11"
BOUNDS = ("14 small templates (star over join with symbolic metadata, qualified join, unqualified column over join, same bare name under two "
          "schemas, self join, union, CTE, derived, 2-statement chain, UPDATE, MERGE, multi-pair RENAME under mysql, DROP) with 2-character "
          "free names; one free 8-bit hash rank per distinct printed name ordering EVERY builtin-set iteration of sqllineage's code; "
          "seed replay over PYTHONHASHSEED 0..15 (quick) / 0..63 (thorough); accessor family: every ordered pair of the 7 accessors")
STUBS = ["sqllineage.runner.split / SqlFluffLineageAnalyzer._list_specific_statement_segment (parser boundary)",
         "iteration order of builtin sets inside sqllineage.* -> order by symbolic rank (hook.py rewrites for / comprehensions / "
         "list() / next(iter()) / sorted() / set.pop / itertools.product)"]
ASSUMPTIONS = ["dicts and networkx views are insertion-ordered: their order is a function of the orders already chosen",
               "set iteration INSIDE networkx/sqlfluff is not permuted (covered only by the seed replay)",
               "distinct names have distinct hash ranks; cross-process effects other than string-hash order are outside the claim"]


def full_dump(lr):
    d = _full_dump(lr)
    if TWIN["on"] and TWIN["armed"] and not TWIN["n"]:
        # sensitivity twin: the first observation of the path loses the first element of every non-empty component
        TWIN["n"] += 1
        d = {k: v[1:] for k, v in d.items()}
    return d


def _full_dump(lr):
    return {
        "sources": [str(t) for t in lr.source_tables],
        "targets": [str(t) for t in lr.target_tables],
        "intermediates": [str(t) for t in lr.intermediate_tables],
        "paths": [tuple(str(c) for c in p) for p in lr.get_column_lineage()],
        "cyto_table": cyto(lr.to_cytoscape()),
        "cyto_column": cyto(lr.to_cytoscape("column")),
    }


def cyto(xs):
    """export entries without the positional edge ids (compared as SETS: the list order of the export and the edge numbering
    follow graph insertion order, which does follow set order - recorded separately, see the export_order obligation)"""
    out = []
    for x in xs:
        d = x["data"]
        if "source" in d:
            out.append(("edge", str(d["source"]), str(d["target"])))
        else:
            out.append(tuple(sorted((k, str(v)) for k, v in d.items() if k != "parent_candidates")))
    return out


SETS = ("cyto_table", "cyto_column")


def dump_eq(a, b):
    from lx.lifted import set_eq as _se

    for k in a:
        x, y = anon_free(a)[k], anon_free(b)[k]
        if k in SETS:
            if len(x) != len(y) or not all(any(seq_eq(e, f) for f in y) for e in x):
                return False
        elif not seq_eq(x, y):
            return False
    return True


def seq_eq(a, b):
    if type(a) in (list, tuple) and type(b) in (list, tuple):
        return len(a) == len(b) and all(seq_eq(x, y) for x, y in zip(a, b))
    if isinstance(a, str) and isinstance(b, str):
        return bool(SymStr.const(a) == SymStr.const(b))
    return a == b


def anon_free(d):
    """entries naming anonymous subqueries are excluded from the comparison (their names derive from a hash of text)"""
    has = lambda s: isinstance(s, str) and (bool(SymStr.const(s).startswith("subquery_")))
    def walk(x):
        if isinstance(x, (list, tuple)):
            return any(walk(y) for y in x)
        return has(x)
    return {k: [e for e in v if not walk(e)] for k, v in d.items()}


class OrderOb(TemplateObligation):
    seeds = 16

    budget_s = 1200

    def __init__(self, name, stmts, dialect="ansi", meta=None, length=2, region=None, kinds=None, fixed=()):
        self.name, self.stmts, self.dialect, self.meta, self.length, self.region = name, list(stmts), dialect, meta, length, region
        self.kinds, self.fixed = kinds, fixed
        self.key = "order/%s/%s" % (name, "+".join(kinds) if kinds else "all-sets")

    def prepare(self):
        self.script = LiftedScript(self.stmts, self.dialect)
        self.script2 = LiftedScript(self.stmts, self.dialect)

    def body(self):
        from sqllineage.core.metadata.dummy import DummyMetaDataProvider

        names = Names(default_len=self.length)
        for sl in self.fixed:
            names.set(sl, "f" + sl[2:])
        md = self.meta(names) if self.meta else None
        mk = lambda: DummyMetaDataProvider({SymStr.const(k): list(v) for k, v in md.items()}) if md is not None else None
        p1, p2 = mk(), mk()
        def run(script, prov):
            try:
                return full_dump(script.runner(names, provider=prov) if prov is not None else script.runner(names)), None
            except Exception as e:     # an exception under some set order only (e.g. a graph error) is nondeterminism too
                return None, type(e).__name__
        base, bexc = run(self.script, p1)
        with symbolic_order(kinds=self.kinds):
            sym, exc = run(self.script2, p2)
        if base is None or sym is None:
            ok = bexc == exc and bexc is not None and False or (base is None and sym is None and bexc == exc)
        else:
            ok = dump_eq(base, sym)
        exc = (bexc, exc)
        finding = self.region(names, md) if (not ok and self.region) else None
        return Verdict(ok, {"names": names, "base": base, "sym": sym, "exc": exc, "meta": md}, finding)

    def concretise(self, verdict, model):
        d = verdict.data
        names = d["names"].concretise(model)
        from lx.lifted import norm_anon as _na

        base = d["base"]
        lb = None
        if base is not None:
            cv = lambda x: _na(sym_value(x, model))
            lb = {"sources": [cv(x) for x in base["sources"]], "targets": [cv(x) for x in base["targets"]],
                  "intermediates": [cv(x) for x in base["intermediates"]], "paths": [[cv(c) for c in p] for p in base["paths"]]}
        return {"names": names, "sql": self.script.render(names), "dialect": self.dialect, "lifted_base": lb,
                "metadata": {sym_value(k, model): sym_value(v, model) for k, v in d["meta"].items()} if d["meta"] is not None else None,
                "exception_under_some_order": d["exc"]}

    def replay(self, conc, verdict_ok):
        from lx.seedrun import across_seeds

        req = {"sql": conc["sql"], "dialect": conc["dialect"], "metadata": conc["metadata"]}
        if verdict_ok:
            # a passing path says: THESE sets' orders do not matter for this naming (other kinds of sets may still matter, they
            # are another harness instance's subject).  Fidelity of the lifting is what is validated here: the lifted baseline
            # result must be one the unmodified library produces (under some seed of the first four)
            import json

            outs = across_seeds(req, range(4))
            want = conc["lifted_base"]
            hit = False
            for line in outs:
                o = json.loads(line)
                if "error" in o:
                    hit = hit or want is None
                    continue
                if want is not None and all(sorted(map(str, o[k])) == sorted(map(str, want[k])) for k in ("sources", "targets", "intermediates")) \
                        and sorted(map(tuple, o["paths"])) == sorted(map(tuple, want["paths"])):
                    hit = True
            return {"real_ok": True, "lifted_matches": hit, "detail": {"real_variants": len(outs), "lifted": want}}
        seeds = range(self.seeds)
        outs = across_seeds(req, seeds)
        if len(outs) > 1:
            ks = list(outs)
            import json

            a, b = json.loads(ks[0]), json.loads(ks[1])
            diff = {k: (a.get(k), b.get(k)) for k in a if a.get(k) != b.get(k)}
            return {"real_ok": False, "lifted_matches": not verdict_ok,
                    "detail": {"seeds": [outs[ks[0]][:3], outs[ks[1]][:3]], "difference": json.dumps(diff)[:600]}}
        if not verdict_ok:
            # the solver's ranking was not realised by any of the seeds tried: over-approximation, not a violation
            return {"real_ok": True, "lifted_matches": True, "unconfirmed": True, "detail": {"seeds_tried": len(list(seeds))}}
        return {"real_ok": True, "lifted_matches": True, "detail": {"seeds": list(seeds)}}


def m_star(n):
    k1, k2, k3 = K("k1", 1), K("k2", 1), K("k3", 1)
    eng().assume(f_not(low(k1)._eq(low(k2))))
    n.extra = (k1, k2, k3)
    return {"s.t1": [k1, k2], "s.t2": [k3]}


def r_star(names, md):
    k1, k2, k3 = names.extra
    if bool(low(k3) == low(k1)) or bool(low(k3) == low(k2)):
        return "C11-star-over-join-overlapping-column-source-depends-on-hash-order"
    return None


def r_rename(names, md):
    # any coincidence among the four names of the two pairs makes the fold order matter
    v = [names[s].lower() for s in ("zqt1", "zqt2", "zqt3", "zqt4")]
    return None      # repaired in /repo (pairs are folded in statement order now): nothing is absorbed


TEMPLATES = {
    "star_join_metadata": (["INSERT INTO s.w SELECT * FROM s.t1 JOIN s.t2 ON t1.id = t2.id"], "ansi", m_star, r_star),
    "qualified_join": (["INSERT INTO zqt3 SELECT a.ca, b.cb FROM zqt1 AS a JOIN zqt2 AS b ON a.id = b.id"], "ansi", None, None),
    "unqualified_join": (["INSERT INTO zqt3 SELECT zqk1, b.cb FROM zqt1 AS a JOIN zqt2 AS b ON a.id = b.id"], "ansi", None, None),
    "same_bare_two_schemas": (["INSERT INTO tw SELECT zqt1.ca, a.cb FROM zqs1.zqt1 JOIN zqs2.zqt2 AS a ON zqt1.id = a.id"], "ansi", None, None),
    # two relations of one FROM clause that may share their bare name (both un-aliased; a CTE and a schema-qualified table)
    "same_bare_two_schemas_noalias": (["INSERT INTO tw SELECT zqt1.ca FROM zqs1.zqt1 JOIN zqs2.zqt2 ON zqs1.zqt1.id = zqs2.zqt2.id"], "ansi", None, None),
    "cte_and_qualified_table": (["INSERT INTO tw WITH zqc1 AS (SELECT ca FROM ta) SELECT zqc1.ca FROM zqc1 CROSS JOIN zqs1.zqt1"], "ansi", None, None),
    "self_join": (["INSERT INTO zqt2 SELECT a.ca, b.cb FROM zqt1 AS a JOIN zqt1 AS b ON a.id = b.id"], "ansi", None, None),
    "union": (["INSERT INTO zqt3 SELECT ca FROM zqt1 UNION ALL SELECT cb FROM zqt2"], "ansi", None, None),
    "cte": (["INSERT INTO zqt2 WITH zqc1 AS (SELECT ca, cb FROM zqt1) SELECT ca, zqc1.cb FROM zqc1"], "ansi", None, None),
    "derived": (["INSERT INTO zqt2 SELECT zqd1.ca FROM (SELECT ca FROM zqt1) AS zqd1"], "ansi", None, None),
    "chain2": (["INSERT INTO zqt2 SELECT zqk1 FROM zqt1", "INSERT INTO zqt4 SELECT zqk2 FROM zqt3"], "ansi", None, None),
    "three_sources": (["INSERT INTO tw SELECT a.ca, b.cb, c.cc FROM zqt1 AS a JOIN zqt2 AS b ON a.id = b.id JOIN zqt3 AS c ON a.id = c.id"], "ansi", None, None),
    "update_from": (["UPDATE zqt1 SET ca = zqt2.cb FROM zqt2 WHERE zqt1.id = zqt2.id"], "ansi", None, None),
    "merge": (["MERGE INTO zqt1 USING zqt2 ON zqt1.id = zqt2.id WHEN MATCHED THEN UPDATE SET zqt1.ca = zqt2.cb"], "ansi", None, None),
    "rename_two_pairs": (["INSERT INTO zqt1 SELECT ca FROM ta", "INSERT INTO zqt3 SELECT cb FROM tb", "RENAME TABLE zqt1 TO zqt2, zqt3 TO zqt4"], "mysql", None, r_rename),
    "drop_after_write": (["INSERT INTO zqt1 SELECT ca FROM ta", "DROP TABLE zqt2"], "ansi", None, None),
}

ACCESSORS = ["source_tables", "target_tables", "intermediate_tables", "get_column_lineage", "to_cytoscape", "to_cytoscape_column", "str",
             "statements"]


def call(lr, name):
    r = _call(lr, name)
    if TWIN["on"] and TWIN["armed"] and not TWIN["n"]:
        TWIN["n"] += 1
        r = (r + 1) if isinstance(r, int) else (r + " ") if isinstance(r, str) else (r[1:] if r else [("<lx-phantom>",)])
    return r


def _call(lr, name):
    if name in ("source_tables", "target_tables", "intermediate_tables"):
        return [str(t) for t in getattr(lr, name)]
    if name == "get_column_lineage":
        return [tuple(str(c) for c in p) for p in lr.get_column_lineage()]
    if name == "to_cytoscape":
        return [tuple(sorted((k, str(v)) for k, v in x["data"].items())) for x in lr.to_cytoscape()]
    if name == "to_cytoscape_column":
        return [tuple(sorted((k, str(v)) for k, v in x["data"].items() if k != "parent_candidates")) for x in lr.to_cytoscape("column")]
    if name == "statements":
        return len(lr.statements())
    return str(lr)


class AccessorOb(TemplateObligation):
    def __init__(self, name, stmts, dialect="ansi", tsql=False):
        self.name, self.stmts, self.dialect, self.tsql = name, list(stmts), dialect, tsql
        self.key = "accessors/" + name + ("/tsql-no-semicolon" if tsql else "")

    def prepare(self):
        self.script = LiftedScript(self.stmts, self.dialect)
        self.script2 = LiftedScript(self.stmts, self.dialect)

    def body(self):
        names = Names(default_len=2)
        for i, sl in enumerate(self.script.slots):
            if i:                       # accessor order does not depend on names: one free name is enough
                names.set(sl, "fx%d" % i)
        a = ACCESSORS[fork_choice("acc_a", len(ACCESSORS))]
        b = ACCESSORS[fork_choice("acc_b", len(ACCESSORS))]
        def go():
            lr = self.script.runner(names, tsql=self.tsql)
            r1 = call(lr, a)
            call(lr, b)
            r3 = call(lr, a)
            fresh_lr = self.script2.runner(names, tsql=self.tsql)
            call(fresh_lr, b)                       # a fresh runner asked the OTHER accessor first
            return r1, r3, call(fresh_lr, a)
        if self.tsql:
            from sqllineage.config import SQLLineageConfig

            with SQLLineageConfig(TSQL_NO_SEMICOLON=True):
                r1, r3, fresh = go()
        else:
            r1, r3, fresh = go()
        ok = seq_eq(r1, r3) and seq_eq(r1, fresh)
        return Verdict(ok, {"names": names, "first": a, "second": b})

    def concretise(self, verdict, model):
        n = verdict.data["names"].concretise(model)
        return {"names": n, "sql": self.script.render(n, sep="\n" if self.tsql else ";\n"), "first": verdict.data["first"],
                "second": verdict.data["second"], "dialect": self.dialect, "tsql": self.tsql}

    def replay(self, conc, verdict_ok):
        from lx import replay as R

        code = ("import warnings\nwarnings.simplefilter('ignore')\nfrom sqllineage.runner import LineageRunner\nc = %r\n"
                "def call(lr, name):\n"
                "    if name in ('source_tables', 'target_tables', 'intermediate_tables'): return [str(t) for t in getattr(lr, name)]\n"
                "    if name == 'get_column_lineage': return [[str(x) for x in p] for p in lr.get_column_lineage()]\n"
                "    if name == 'to_cytoscape': return lr.to_cytoscape()\n"
                "    if name == 'to_cytoscape_column': return lr.to_cytoscape('column')\n"
                "    if name == 'statements': return len(lr.statements())\n"
                "    return str(lr)\n"
                "from sqllineage.config import SQLLineageConfig\nimport contextlib\n"
                "with (SQLLineageConfig(TSQL_NO_SEMICOLON=True) if c['tsql'] else contextlib.nullcontext()):\n"
                "    lr = LineageRunner(c['sql'], dialect=c['dialect']); r1 = call(lr, c['first']); call(lr, c['second']); r3 = call(lr, c['first'])\n"
                "    fr = LineageRunner(c['sql'], dialect=c['dialect']); call(fr, c['second']); fresh = call(fr, c['first'])\n"
                "result = {'ok': r1 == r3 == fresh}\n") % (conc,)
        r = R.run_code(code)
        if not r.get("ok"):
            return {"real_ok": False, "lifted_matches": False, "detail": r}
        return {"real_ok": r["result"]["ok"], "lifted_matches": r["result"]["ok"] == verdict_ok, "detail": r["result"]}


FIXED = {"three_sources": ("zqt1", "zqt2"), "chain2": ("zqt1", "zqt4"), "same_bare_two_schemas": ("zqs1",), "rename_two_pairs": ()}
KINDS = [("dataset",), ("column",), ("str", "tuple", "other")]


def obligations(tier, seed):
    obs = []
    for name, (stmts, d, meta, region) in TEMPLATES.items():
        # one harness instance per kind of set that is permuted (tables/subqueries, columns, the rest); small templates
        # additionally with every set permuted at once
        for kinds in KINDS:
            ob = OrderOb(name, stmts, d, meta, 2, region, kinds=kinds, fixed=FIXED.get(name, ()))
            ob.seeds = 16 if tier == "quick" else 32
            if tier == "thorough":
                ob.validate_every = 8     # every 8th passing path is replayed under 32 hash seeds (each replay = 32 real runs)
            obs.append(ob)
        if name in ("derived", "update_from", "merge", "drop_after_write", "self_join", "cte") or tier == "thorough":
            ob = OrderOb(name, stmts, d, meta, 2, region, kinds=None, fixed=FIXED.get(name, ()))
            ob.seeds = 16 if tier == "quick" else 32
            if tier == "thorough":
                ob.budget_s = 1500
                ob.validate_every = 8
            obs.append(ob)
    for name in ("qualified_join", "unqualified_join", "chain2", "cte"):
        obs.append(AccessorOb(name, TEMPLATES[name][0]))
    # scripts in which a table is written by a statement that reads nothing / read by one that writes nothing, and a self-insert:
    # the role accessors draw on tagged sets, which must not grow or shrink by being read
    obs.append(AccessorOb("write_only_and_chain", ["CREATE TABLE zqt1 (ca int)", "INSERT INTO zqt2 VALUES (1)", "INSERT INTO zqt3 SELECT ca FROM zqt4"]))
    obs.append(AccessorOb("read_only_and_self_insert", ["SELECT ca FROM zqt1", "INSERT INTO zqt2 SELECT ca FROM zqt2 JOIN zqt3 ON zqt2.id = zqt3.id"]))
    obs.append(AccessorOb("two_inserts", ["INSERT INTO zqt1 SELECT ca FROM zqt2", "INSERT INTO zqt3 SELECT cb FROM zqt4"], "tsql", tsql=True))
    return obs
