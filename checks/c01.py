"""
C01  Single-statement table lineage is exact.

Per corpus statement (statement kind x FROM shape x query form, nesting <= 2; thorough adds seeded depth-4
compositions) x dialect: the real LineageRunner runs on the symbolised tree with table, schema, alias,
derived-alias and CTE names FREE; the oracle (ordinary SQL scoping on the typed AST, checks/gen.py) is evaluated
on the same symbolic names.  Assertion: reported source tables == the base tables the statement reads at any
depth, target == the written table, nothing else (so no statement-local name is ever reported as a table
unless it coincides with a real one), no-data statements report nothing.
"""
from __future__ import annotations

from checks import corpus
from checks.oracle_ob import OracleOb

PID = "C01"
BOUNDS = ("corpus of checks/corpus.py: kinds {INSERT, INSERT(cols), CTAS, CREATE VIEW, bare query, UPDATE..FROM, MERGE, no-data kinds} x 21 "
          "FROM shapes x forms {plain, UNION [ALL] 2-3 branches, CTE (1-2, chained), WHERE IN/EXISTS subquery, parenthesised, "
          "scalar subquery in select list / HAVING / CASE / function} x nesting <= 2 (thorough: + 120 seeded depth-4 compositions); "
          "free names: up to 5 (quick) / 7 (thorough) of the table-ish slots, bodies of 2 characters (thorough: also 3 and mixed "
          "1-3); dialect ansi (thorough: + sparksql, postgres, tsql, bigquery, snowflake, mysql on a seeded third)")
STUBS = ["sqllineage.runner.split -> statement handles of the template",
         "SqlFluffLineageAnalyzer._list_specific_statement_segment -> pre-parsed, symbolised tree"]
ASSUMPTIONS = ["SQL validity: exposed relation names of one FROM scope pairwise distinct; CTE names of one WITH distinct",
               "an unqualified table name equal to a visible CTE name IS that CTE (shadowing) - handled by the oracle, not assumed away",
               "slots inside scalar subqueries nested in CASE/function stay concrete (the library re-enters on their text)",
               "COPY / SELECT INTO / dialect-specific kinds are covered by C09's hand-written dialect templates only"]


class TableOb(OracleOb):
    fields = ("sources", "targets", "intermediates")
    pid = "C01"


def obligations(tier, seed):
    import random

    rnd = random.Random("c01/%s" % seed)
    tpl = corpus.build(tier, seed)
    budget = 5 if tier == "quick" else 7
    obs = [TableOb(k, st, "ansi", "tabs", budget, seed) for k, st in tpl]
    if tier == "quick":
        keep = [o for o in obs if "/plain" in o.key or "nodata" in o.key or "merge" in o.key or "update" in o.key or "scalar" in o.key]
        rest = [o for o in obs if o not in keep]
        obs = keep + rnd.sample(rest, len(rest) // 2)
    else:
        for k, st in tpl:
            if "/plain" in k:
                obs.append(TableOb(k, st, "ansi", "tabs", 5, seed, length=3))
                obs.append(TableOb(k, st, "ansi", "tabs", 5, seed, lengths=[1, 3, 2]))
        for d in ("sparksql", "postgres", "tsql", "bigquery", "snowflake", "mysql"):
            sub = [(k, st) for k, st in tpl if st.kind in ("insert", "ctas", "bare", "view") and not st.paren]
            for k, st in rnd.sample(sub, len(sub) // 3):
                obs.append(TableOb(k, st, d, "tabs", 5, seed))
    return obs
