"""
C01  Single-statement table lineage is exact.

Per corpus statement (statement kind x FROM shape x query form, nesting <= 2; thorough adds seeded depth-4
compositions) x dialect: the real LineageRunner runs on the symbolised tree with table, schema, alias,
derived-alias and CTE names FREE; the oracle (ordinary SQL scoping on the typed AST, checks/gen.py) is evaluated
on the same symbolic names.  Assertion: reported source tables == the base tables the statement reads at any
depth, target == the written table, nothing else (so no statement-local name is ever reported as a table
unless it coincides with a real one), no-data statements report nothing.
"""
from __future__ import annotations

from checks import corpus
from checks.oracle_ob import OracleOb

PID = "C01"
BOUNDS = ("corpus of checks/corpus.py: kinds {INSERT, INSERT(cols), CTAS, CREATE VIEW, bare query, UPDATE..FROM, MERGE, no-data kinds} x 21 "
          "FROM shapes x forms {plain, UNION [ALL] 2-3 branches, CTE (1-2, chained), WHERE IN/EXISTS subquery, parenthesised, "
          "scalar subquery in select list / HAVING / CASE / function} x nesting <= 2 (thorough: + 120 seeded depth-4 compositions); "
          "free names: up to 5 (quick) / 6 (thorough) of the table-ish slots, bodies of 2 characters (thorough: also 3 and mixed "
          "1-3); dialect ansi (thorough: + sparksql, postgres, tsql, bigquery, snowflake, mysql on a seeded third)")
STUBS = ["sqllineage.runner.split -> statement handles of the template",
         "SqlFluffLineageAnalyzer._list_specific_statement_segment -> pre-parsed, symbolised tree"]
ASSUMPTIONS = ["SQL validity: exposed relation names of one FROM scope pairwise distinct; CTE names of one WITH distinct",
               "an unqualified table name equal to a visible CTE name IS that CTE (shadowing) - handled by the oracle, not assumed away",
               "slots inside scalar subqueries nested in CASE/function stay concrete (the library re-enters on their text)",
               "COPY / SELECT INTO / INSERT OVERWRITE / file sources / LIKE / CLONE / partition exchange / recursive CTEs: 31 hand-written "
               "templates with hand-written expectations (RAW), not the generator grammar"]


class TableOb(OracleOb):
    fields = ("sources", "targets", "intermediates")
    pid = "C01"


from checks.common import D, Expect, TemplateObligation, cat
from lx.lifted import dump_runner
from lx.tree import Names

T = lambda n: cat(D, ".", n.lower())
P = lambda prefix, n: cat(prefix, n)        # a path keeps its spelling

# dialect-specific statement kinds of the property's list (COPY, SELECT INTO, INSERT OVERWRITE, LIKE / CLONE, EXCHANGE / SWAP
# PARTITION, file sources) and no-data kinds: (dialect, sql, expected(names) -> (sources, targets))
RAW = {
    "copy_from_path/postgres": ("postgres", "COPY zqt1 FROM 's3://bucket/zqp1'", lambda n: ([P("s3://bucket/", n["zqp1"])], [T(n["zqt1"])])),
    "copy_from_path/redshift": ("redshift", "COPY zqt1 FROM 's3://bucket/zqp1'", lambda n: ([P("s3://bucket/", n["zqp1"])], [T(n["zqt1"])])),
    "copy_into/snowflake": ("snowflake", "COPY INTO zqt1 FROM 's3://bucket/zqp1'", lambda n: ([P("s3://bucket/", n["zqp1"])], [T(n["zqt1"])])),
    "select_into/postgres": ("postgres", "SELECT a.ca, b.cb INTO zqt1 FROM zqt2 AS a JOIN zqt3 AS b ON a.id = b.id", lambda n: ([T(n["zqt2"]), T(n["zqt3"])], [T(n["zqt1"])])),
    "select_into/tsql": ("tsql", "SELECT ca INTO zqt1 FROM zqt2", lambda n: ([T(n["zqt2"])], [T(n["zqt1"])])),
    "select_into_union/postgres": ("postgres", "SELECT ca INTO zqt1 FROM zqt2 UNION ALL SELECT cb FROM zqt3", lambda n: ([T(n["zqt2"]), T(n["zqt3"])], [T(n["zqt1"])])),
    "insert_overwrite/sparksql": ("sparksql", "INSERT OVERWRITE TABLE zqt1 SELECT ca FROM zqt2", lambda n: ([T(n["zqt2"])], [T(n["zqt1"])])),
    "insert_overwrite_no_table_kw/sparksql": ("sparksql", "INSERT OVERWRITE zqt1 SELECT ca FROM zqt2", lambda n: ([T(n["zqt2"])], [T(n["zqt1"])])),
    "insert_overwrite_partition/hive": ("hive", "INSERT OVERWRITE TABLE zqt1 PARTITION (dt='1') SELECT ca FROM zqt2", lambda n: ([T(n["zqt2"])], [T(n["zqt1"])])),
    "insert_overwrite_directory/sparksql": ("sparksql", "INSERT OVERWRITE DIRECTORY 'hdfs://nn/zqp1' SELECT ca FROM zqt1", lambda n: ([T(n["zqt1"])], [P("hdfs://nn/", n["zqp1"])])),
    "insert_without_into/bigquery": ("bigquery", "INSERT zqt1 SELECT ca FROM zqt2", lambda n: ([T(n["zqt2"])], [T(n["zqt1"])])),
    "select_from_file/sparksql": ("sparksql", "INSERT INTO zqt1 SELECT ca FROM parquet.`/data/zqp1`", lambda n: ([P("/data/", n["zqp1"])], [T(n["zqt1"])])),
    "create_like/ansi": ("ansi", "CREATE TABLE zqt1 LIKE zqt2", lambda n: ([T(n["zqt2"])], [T(n["zqt1"])])),
    "create_clone/snowflake": ("snowflake", "CREATE TABLE zqt1 CLONE zqt2", lambda n: ([T(n["zqt2"])], [T(n["zqt1"])])),
    "exchange_partition/hive": ("hive", "ALTER TABLE zqt1 EXCHANGE PARTITION (dt='1') WITH TABLE zqt2", lambda n: ([T(n["zqt2"])], [T(n["zqt1"])])),
    "swap_partitions/vertica": ("vertica", "SELECT swap_partitions_between_tables('zqt1', 1, 2, 'zqt2')", lambda n: ([T(n["zqt1"])], [T(n["zqt2"])])),
    "lateral_view/sparksql": ("sparksql", "INSERT INTO zqt1 SELECT a.ca, zqa1.cb FROM zqt2 AS a LATERAL VIEW explode(a.arr) zqa1 AS cb", lambda n: ([T(n["zqt2"])], [T(n["zqt1"])])),
    "update_join/mysql": ("mysql", "UPDATE zqt1 a JOIN zqt2 b ON a.id = b.id SET a.ca = b.cb", lambda n: ([T(n["zqt2"])], [T(n["zqt1"])])),
    "create_view_if_not_exists/ansi": ("ansi", "CREATE VIEW IF NOT EXISTS zqt1 AS SELECT ca FROM zqt2", lambda n: ([T(n["zqt2"])], [T(n["zqt1"])])),
    # a recursive CTE names itself in its own body: never a table (a base table spelled like the CTE is shadowed)
    "recursive_cte_bare/ansi": ("ansi", "WITH RECURSIVE zqd1 AS (SELECT ca FROM zqt1 UNION ALL SELECT zqd1.ca FROM zqd1 JOIN zqt2 ON zqd1.id = zqt2.id) SELECT ca FROM zqd1",
                                lambda n: (_unshadowed(n, "zqd1", "zqt1", "zqt2"), [])),
    "recursive_cte_insert/ansi": ("ansi", "INSERT INTO zqt3 WITH RECURSIVE zqd1 AS (SELECT ca FROM zqt1 UNION ALL SELECT zqd1.ca FROM zqd1 JOIN zqt2 ON zqd1.id = zqt2.id) SELECT ca FROM zqd1",
                                  lambda n: (_unshadowed(n, "zqd1", "zqt1", "zqt2"), [T(n["zqt3"])])),
    "recursive_cte_ctas_cte_second/postgres": ("postgres", "CREATE TABLE zqt3 AS WITH RECURSIVE zqd1 AS (SELECT ca FROM zqt1 UNION ALL SELECT b.ca FROM zqt2 AS b JOIN zqd1 ON zqd1.id = b.id) SELECT ca FROM zqd1",
                                               lambda n: (_unshadowed(n, "zqd1", "zqt1", "zqt2"), [T(n["zqt3"])])),
    "recursive_cte_no_keyword/tsql": ("tsql", "WITH zqd1 AS (SELECT ca FROM zqt1 UNION ALL SELECT zqd1.ca FROM zqd1 JOIN zqt2 ON zqd1.id = zqt2.id) INSERT INTO zqt3 SELECT ca FROM zqd1",
                                      lambda n: (_unshadowed(n, "zqd1", "zqt1", "zqt2"), [T(n["zqt3"])])),
    "truncate/ansi": ("ansi", "TRUNCATE TABLE zqt1", lambda n: ([], [])),
    "delete_subquery/ansi": ("ansi", "DELETE FROM zqt1 WHERE id IN (SELECT id FROM zqt2)", lambda n: ([], [])),
    "show/sparksql": ("sparksql", "SHOW CREATE TABLE zqt1", lambda n: ([], [])),
    "use/ansi": ("ansi", "USE zqs1", lambda n: ([], [])),
    "analyze/postgres": ("postgres", "ANALYZE zqt1", lambda n: ([], [])),
    "cache_table/sparksql": ("sparksql", "CACHE TABLE zqt1 SELECT ca FROM zqt2", lambda n: ([], [])),
    "refresh/sparksql": ("sparksql", "REFRESH TABLE zqt1", lambda n: ([], [])),
    "drop_view/ansi": ("ansi", "DROP VIEW IF EXISTS zqt1", lambda n: ([], [])),
}


def _unshadowed(n, cte, *tabs):
    """the base tables among `tabs` that are not spelled like the CTE (case-insensitively)"""
    return [T(n[t]) for t in tabs if not bool(n[t].lower() == n[cte].lower())]


class RawTableOb(TemplateObligation):
    fields = ("sources", "targets", "intermediates")

    def __init__(self, name, dialect, sql, expect):
        self.name, self.dialect, self.expect = name, dialect, expect
        self.stmts = [sql]
        self.key = "kind/" + name

    def body(self):
        names = Names(default_len=2)
        lifted = dump_runner(self.script.runner(names))
        src, tgt = self.expect(names)
        exp = Expect(sources=src, targets=tgt)
        return self.verdict(names, lifted, exp)


def obligations(tier, seed):
    import random

    rnd = random.Random("c01/%s" % seed)
    tpl = corpus.build(tier, seed)
    budget = 5 if tier == "quick" else 6
    _b = lambda k: min(budget, 4) if k.startswith("rand/") else budget     # depth-4 random compositions carry many slots
    obs = [TableOb(k, st, "ansi", "tabs", _b(k), seed) for k, st in tpl]
    raw = [RawTableOb(n, d, q, e) for n, (d, q, e) in RAW.items()]
    if tier == "quick":
        keep = [o for o in obs if "/plain" in o.key or "nodata" in o.key or "merge" in o.key or "update" in o.key or "scalar" in o.key]
        rest = [o for o in obs if o not in keep]
        obs = keep + rnd.sample(rest, len(rest) // 2)
        obs += raw
    else:
        obs += raw
        _nbase = len(obs)
        for k, st in tpl:
            if "/plain" in k:
                obs.append(TableOb(k, st, "ansi", "tabs", 5, seed, length=3))
                obs.append(TableOb(k, st, "ansi", "tabs", 5, seed, lengths=[1, 3, 2]))
        for d in ("sparksql", "postgres", "tsql", "bigquery", "snowflake", "mysql"):
            sub = [(k, st) for k, st in tpl if st.kind in ("insert", "ctas", "bare", "view") and not st.paren]
            for k, st in rnd.sample(sub, len(sub) // 3):
                obs.append(TableOb(k, st, d, "tabs", 5, seed))
        if len(obs) > 750:
            # sized by wall time: every base instance, and a seeded share of the additional length / dialect instances
            extras = obs[_nbase:]
            obs = obs[:_nbase] + rnd.sample(extras, max(0, 750 - _nbase))
    return obs
