"""shared pieces of the template-based checks"""
from __future__ import annotations

from lx.check import Obligation, Verdict
from lx.engine import SymStr, eng, f_and, f_not, f_or, mkbool, rawb, sym_value

D = "<default>"

QUOTES = {"none": ("", ""), "dq": ('"', '"'), "bt": ("`", "`"), "br": ("[", "]")}
# which quote styles a dialect lexes as quoted identifiers
DIALECT_QUOTES = {
    "ansi": ["none", "dq"],
    "postgres": ["none", "dq"],
    "snowflake": ["none", "dq"],
    "sparksql": ["none", "bt"],
    "mysql": ["none", "bt"],
    "bigquery": ["none", "bt"],
    "hive": ["none", "bt"],
    "tsql": ["none", "dq", "br"],
    "redshift": ["none", "dq"],
    "duckdb": ["none", "dq"],
    "trino": ["none", "dq"],
    "athena": ["none", "dq"],
    "databricks": ["none", "bt"],
    "oracle": ["none", "dq"],
    "sqlite": ["none", "dq"],
    "clickhouse": ["none", "dq", "bt"],
    "teradata": ["none", "dq"],
    "exasol": ["none", "dq"],
    "db2": ["none", "dq"],
    "greenplum": ["none", "dq"],
    "materialize": ["none", "dq"],
    "vertica": ["none", "dq"],
    "mariadb": ["none", "bt"],
    "starrocks": ["none", "bt"],
    "doris": ["none", "bt"],
    "impala": ["none", "bt"],
    "soql": ["none"],
    "flink": ["none", "bt"],
}


def spec_norm(body, quote):
    """the property's normalisation: unquoted -> lower case; quoted -> body unchanged (only quotes lost)"""
    body = SymStr.const(body)
    return body.lower() if quote == "none" else body


def q(slot, quote):
    a, b = QUOTES[quote]
    return a + slot + b


def cat(*parts):
    out = SymStr.const("")
    for p in parts:
        out = out + SymStr.const(p)
    return out


def has_upper(s: SymStr):
    """formula: some character is an upper-case ASCII letter"""
    from lx.engine import ch_in

    return mkbool(f_or([ch_in(c, range(65, 91)) for c in s.cs]))


class Expect:
    """expected observable result (entries may be SymStr)"""

    def __init__(self, sources=(), targets=(), intermediates=(), pairs=()):
        self.sources, self.targets, self.intermediates, self.pairs = list(sources), list(targets), list(intermediates), list(pairs)

    def concretise(self, model):
        f = lambda xs: sorted(sym_value(x, model) for x in xs)
        return {"sources": f(self.sources), "targets": f(self.targets), "intermediates": f(self.intermediates),
                "pairs": sorted([sym_value(a, model), sym_value(b, model)] for a, b in self.pairs)}


class TemplateObligation(Obligation):
    """one template script under one dialect, compared with an expected result (oracle or twin run)"""

    stmts: list = []
    dialect = "ansi"
    metadata_conc = None
    fields = ("sources", "targets", "intermediates", "pairs")
    twin_enabled = False

    def prepare(self):
        from lx.lifted import LiftedScript

        self.script = LiftedScript(self.stmts, self.dialect)

    def describe(self):
        return {"key": self.key, "dialect": self.dialect, "template": self.stmts}

    # -- helpers -----------------------------------------------------------------------
    def verdict(self, names, lifted, expected, ok=None, finding=None, extra=None):
        if ok is None:
            ok = self.compare(lifted, expected)
        return Verdict(ok, {"names": names, "lifted": lifted, "expected": expected, "extra": extra}, finding)

    def compare(self, lifted, expected):
        from lx.lifted import set_eq

        for k in self.fields:
            if not set_eq(getattr(lifted, k), getattr(expected, k)):
                return False
        return True

    def concretise(self, verdict, model):
        d = verdict.data
        names = d["names"].concretise(model)
        out = {"dialect": self.dialect, "names": names, "sql": self.render(names),
               "lifted": d["lifted"].concretise(model) if d["lifted"] is not None else None,
               "expected": d["expected"].concretise(model) if d["expected"] is not None else None}
        if d.get("extra") is not None:
            out["extra"] = sym_value(d["extra"], model)
        return out

    def render(self, names):
        return self.script.render(names)

    def real_kwargs(self, conc):
        return {}

    def replay(self, conc, verdict_ok):
        from lx import replay as R

        rr = R.run_real(conc["sql"], self.dialect, **self.real_kwargs(conc))
        if not rr.get("ok"):
            return {"real_ok": False, "lifted_matches": False,
                    "detail": {"real_error": rr.get("error"), "message": rr.get("message")}}
        real = {k: rr[k] for k in ("sources", "targets", "intermediates", "pairs")}
        lm = R.same_dump(rr, conc["lifted"], self.fields) if conc.get("lifted") is not None else True
        ro = R.same_dump(rr, conc["expected"], self.fields)
        return {"real_ok": ro, "lifted_matches": lm, "detail": {"real": real, "expected": conc["expected"]}}
