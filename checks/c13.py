"""
C13  Metadata only refines column attribution.

The real LineageRunner with and without a dict-backed provider (the bundled DummyMetaDataProvider is real code) whose
column lists are SYMBOLIC and whose knowledge of each table is a free bit.  Obligations per template:
 * table-level lineage identical with / without metadata (all templates, plus corpus statements with an unrelated
   provider: unknown tables => exactly the no-provider answer);
 * SELECT * over a known table expands to exactly its columns (single table, join, through a derived table);
 * an unqualified column in a multi-relation scope is attributed to exactly the in-scope known tables listing it,
   never to a known table not listing it; unresolved when none lists it;
 * INSERT without a column list takes positions from the target's known columns; an explicit list wins.
Column-name overlap patterns are not enumerated: they are the solver's case split over name equalities.
"""
from __future__ import annotations

from checks.common import Expect, TemplateObligation, cat
from checks.c15 import fork_bool
from lx.check import Verdict
from lx.engine import SymStr, eng, f_not
from lx.lifted import LiftedScript, dump_runner, set_eq
from lx.tree import Names

PID = "C13"
BOUNDS = ("25 hand-written statement templates over schema-qualified tables (s.t1, s.t2, s.w; two with free schema/table names), 5 of them also under 2-6 further "
          "grammars (postgres, redshift, impala, sparksql, snowflake, tsql, mysql) + a seeded share of the corpus under an "
          "unrelated provider; metadata column names free (2 characters over the identifier alphabet; thorough: 1-3), 1-3 columns "
          "per table, a free known/unknown bit per table; provider = DummyMetaDataProvider (dict-backed)")
STUBS = ["sqllineage.runner.split / SqlFluffLineageAnalyzer._list_specific_statement_segment (parser boundary)"]
ASSUMPTIONS = ["column names within one table's metadata are pairwise distinct",
               "the SQLAlchemy provider is covered only through the shared MetaDataProvider.get_table_columns code path (its "
               "_get_table_columns talks to a database, which is not encoded)"]

T1, T2, W = "s.t1", "s.t2", "s.w"
C = lambda t, c: cat(t, ".", c)


def K(tag, n):
    return SymStr.var(tag, n, "qzjQZJ_07", "qzjQZJ")


def low(x):
    return SymStr.const(x).lower()


class MetaOb(TemplateObligation):
    twin_enabled = False

    def __init__(self, name, sql, build, length=2, dialect="ansi"):
        self.name, self.sql, self.build, self.length, self.dialect = name, sql, build, length, dialect
        self.stmts = [sql] if isinstance(sql, str) else list(sql)
        self.key = "%s/len%d%s" % (name, length, "" if dialect == "ansi" else "@" + dialect)

    def prepare(self):
        self.script = LiftedScript(self.stmts, self.dialect)
        self.script0 = LiftedScript(self.stmts, self.dialect)

    def body(self):
        from sqllineage.core.metadata.dummy import DummyMetaDataProvider

        names = Names(default_len=self.length)
        meta, exp_with, exp_without = self.build(self, names)
        md = {SymStr.const(t): list(cols) for t, cols in meta.items()}
        meta = {(t.plain() if isinstance(t, SymStr) and t.concrete() else t): v for t, v in meta.items()}
        with_md = dump_runner(self.script.runner(names, provider=DummyMetaDataProvider(md)))
        without = dump_runner(self.script0.runner(names, provider=DummyMetaDataProvider()))
        why = None
        for k in ("sources", "targets", "intermediates"):
            if not set_eq(getattr(with_md, k), getattr(without, k)):
                why = "table-level lineage changes with metadata"
        if why is None and exp_without is not None and not set_eq(without.pairs, exp_without):
            why = "column pairs without metadata differ from the expected ones"
        if why is None and not set_eq(with_md.pairs, exp_with):
            why = "column pairs with metadata differ from the expected ones"
        finding = self.classify(names, meta, with_md, exp_with) if why else None
        exp = Expect(sources=with_md.sources, targets=with_md.targets, intermediates=with_md.intermediates, pairs=exp_with)
        return Verdict(why is None, {"names": names, "lifted": with_md, "expected": exp, "extra": {"meta": md, "why": why}}, finding)

    def classify(self, names, meta, got, exp):
        return None

    def concretise(self, verdict, model):
        out = super().concretise(verdict, model)
        out["metadata"] = {k: list(v) for k, v in out["extra"]["meta"].items()}
        return out

    def replay(self, conc, verdict_ok):
        from lx import replay as R

        r1 = R.run_real(conc["sql"], self.dialect, metadata=conc["metadata"])
        r0 = R.run_real(conc["sql"], self.dialect)
        if not (r1.get("ok") and r0.get("ok")):
            return {"real_ok": False, "lifted_matches": False, "detail": {"r1": r1.get("error"), "m": r1.get("message")}}
        tables_same = all(r1[k] == r0[k] for k in ("sources", "targets", "intermediates"))
        ro = tables_same and R.same_dump(r1, conc["expected"], ("pairs",))
        lm = R.same_dump(r1, conc["lifted"])
        return {"real_ok": ro, "lifted_matches": lm,
                "detail": {"with_metadata": r1["pairs"], "without": r0["pairs"], "expected": conc["expected"]["pairs"],
                           "tables_same": tables_same}}


def distinct(*xs):
    for i in range(len(xs)):
        for k in range(i + 1, len(xs)):
            eng().assume(f_not(low(xs[i])._eq(low(xs[k]))))


# ---- template builders: (self, names) -> (metadata dict, expected pairs with metadata, expected pairs without | None) ----

def b_star_single(self, n):
    k1, k2 = K("k1", self.length), K("k2", self.length)
    distinct(k1, k2)
    if fork_bool("known_t1"):
        return {T1: [k1, k2]}, [(C(T1, low(k1)), C(W, low(k1))), (C(T1, low(k2)), C(W, low(k2)))], [(C(T1, "*"), C(W, "*"))]
    return {"s.other": [k1]}, [(C(T1, "*"), C(W, "*"))], [(C(T1, "*"), C(W, "*"))]


def b_star_join(self, n):
    k1, k2, k3 = K("k1", self.length), K("k2", self.length), K("k3", self.length)
    distinct(k1, k2)
    kn1, kn2 = fork_bool("known_t1"), fork_bool("known_t2")
    meta, exp = {}, []
    if kn1:
        meta[T1] = [k1, k2]
        exp += [(C(T1, low(k1)), C(W, low(k1))), (C(T1, low(k2)), C(W, low(k2)))]
    else:
        exp += [(C(T1, "*"), C(W, "*"))]
    if kn2:
        meta[T2] = [k3]
        exp += [(C(T2, low(k3)), C(W, low(k3)))]
    else:
        exp += [(C(T2, "*"), C(W, "*"))]
    if not meta:
        meta = {"s.other": [k1]}
    return meta, exp, [(C(T1, "*"), C(W, "*")), (C(T2, "*"), C(W, "*"))]


def b_star_join_classify(self, names, meta, got, exp):
    has = lambda pairs, a, b: any(bool(x == a) and bool(y == b) for x, y in pairs)
    kn1, kn2 = T1 in meta, T2 in meta
    if kn1 and kn2:
        # recorded finding: the known tables share a column name -> only one of the two sources of that column is kept
        k3 = meta[T2][0]
        if any(bool(low(k3) == low(k)) for k in meta[T1]):
            missing = [p for p in exp if not has(got.pairs, *p)]
            extra = [p for p in got.pairs if not has(exp, *p)]
            if len(missing) == 1 and not extra and bool(missing[0][1] == C(W, low(k3))):
                return "C13-star-over-join-overlapping-column-keeps-one-source"
    elif kn1 != kn2:
        # recorded finding: only one of the joined tables is known -> the unknown table's wildcard lineage (t.* -> w.*) is lost
        unk = T2 if kn1 else T1
        # (before fix 10295e9 the lost wildcard also showed up as a one-node path (t.*, t.*); lone columns are no longer paths)
        want = [p for p in exp if not (bool(p[0] == C(unk, "*")))]
        if set_eq(got.pairs, want):
            return "C13-star-over-join-partial-knowledge-loses-wildcard"
    return None


def b_star_cte_classify(self, names, meta, got, exp):
    if T1 in meta and set_eq(got.pairs, [(SymStr.const("c.*"), C(W, "*"))]):
        return "C13-star-through-cte-not-expanded"
    return None


def b_qualified_star(self, n):
    k1, k2 = K("k1", self.length), K("k2", self.length)
    distinct(k1, k2)
    if fork_bool("known_t1"):
        return {T1: [k1, k2]}, [(C(T1, low(k1)), C(W, low(k1))), (C(T1, low(k2)), C(W, low(k2))), (C(T2, "cb"), C(W, "cb"))], None
    return {"s.other": [k1]}, [(C(T1, "*"), C(W, "*")), (C(T2, "cb"), C(W, "cb"))], None


def b_star_derived(self, n):
    k1, k2 = K("k1", self.length), K("k2", self.length)
    distinct(k1, k2)
    if fork_bool("known_t1"):
        return {T1: [k1, k2]}, [(C(T1, low(k1)), C(W, low(k1))), (C(T1, low(k2)), C(W, low(k2)))], None
    return {"s.other": [k1]}, [(C(T1, "*"), C(W, "*"))], None


def b_unqualified(self, n):
    kx, k1, k2, k3 = n["zqkx"], K("k1", self.length), K("k2", self.length), K("k3", self.length)
    distinct(k1, k3)
    kn1, kn2 = fork_bool("known_t1"), fork_bool("known_t2")
    meta = {}
    if kn1:
        meta[T1] = [k1, k3]
    if kn2:
        meta[T2] = [k2]
    if not meta:
        meta = {"s.other": [k1]}
    srcs = []
    if kn1 and (bool(low(kx) == low(k1)) or bool(low(kx) == low(k3))):
        srcs.append(C(T1, low(kx)))
    if kn2 and bool(low(kx) == low(k2)):
        srcs.append(C(T2, low(kx)))
    exp = [(s, C(W, low(kx))) for s in srcs] if srcs else [(low(kx), C(W, low(kx)))]
    return meta, exp, [(low(kx), C(W, low(kx)))]


def b_unqualified_free_tables(self, n):
    """as b_unqualified, with the two tables' schema and table names free: equal bare names under different schemas,
    equal schemas, ... are the solver's cases"""
    kx, k1, k2, k3 = n["zqkx"], K("k1", self.length), K("k2", self.length), K("k3", self.length)
    distinct(k1, k3)
    ta = cat(low(n["zqs1"]), ".", low(n["zqt1"]))
    tb = cat(low(n["zqs2"]), ".", low(n["zqt2"]))
    eng().assume(f_not(ta._eq(tb)))
    eng().assume(f_not(ta._eq(SymStr.const(W))))
    eng().assume(f_not(tb._eq(SymStr.const(W))))
    kn1, kn2 = fork_bool("known_t1"), fork_bool("known_t2")
    meta = {}
    if kn1:
        meta[ta] = [k1, k3]
    if kn2:
        meta[tb] = [k2]
    if not meta:
        meta = {SymStr.const("s.other"): [k1]}
    srcs = []
    if kn1 and (bool(low(kx) == low(k1)) or bool(low(kx) == low(k3))):
        srcs.append(C(ta, low(kx)))
    if kn2 and bool(low(kx) == low(k2)):
        srcs.append(C(tb, low(kx)))
    exp = [(s, C(W, low(kx))) for s in srcs] if srcs else [(low(kx), C(W, low(kx)))]
    return meta, exp, [(low(kx), C(W, low(kx)))]


def b_insert_positions(self, n):
    k1, k2 = K("k1", self.length), K("k2", self.length)
    distinct(k1, k2)
    if fork_bool("known_w"):
        return {W: [k1, k2]}, [(C(T1, "ca"), C(W, low(k1))), (C(T1, "cb"), C(W, low(k2)))], [(C(T1, "ca"), C(W, "ca")), (C(T1, "cb"), C(W, "cb"))]
    return {"s.other": [k1]}, [(C(T1, "ca"), C(W, "ca")), (C(T1, "cb"), C(W, "cb"))], [(C(T1, "ca"), C(W, "ca")), (C(T1, "cb"), C(W, "cb"))]


def b_insert_explicit_list(self, n):
    # the listed names are free as well: a permutation of the known columns, a partial overlap, no overlap are all
    # just solver cases
    kx, ky = n["zqkx"], n["zqky"]
    k1, k2 = K("k1", self.length), K("k2", self.length)
    distinct(k1, k2)
    distinct(kx, ky)
    exp = [(C(T1, "ca"), C(W, low(kx))), (C(T1, "cb"), C(W, low(ky)))]
    meta = {W: [k1, k2]} if fork_bool("known_w") else {"s.other": [k1]}
    return meta, exp, exp


def b_insert_explicit_shorter(self, n):
    # fewer listed columns than the target is known to have
    kx = n["zqkx"]
    k1, k2 = K("k1", self.length), K("k2", self.length)
    distinct(k1, k2)
    exp = [(C(T1, "ca"), C(W, low(kx)))]
    meta = {W: [k1, k2]} if fork_bool("known_w") else {"s.other": [k1]}
    return meta, exp, exp


def b_insert_explicit_longer(self, n):
    # more listed columns than the target is known to have
    kx, ky = n["zqkx"], n["zqky"]
    k1 = K("k1", self.length)
    distinct(kx, ky)
    exp = [(C(T1, "ca"), C(W, low(kx))), (C(T1, "cb"), C(W, low(ky)))]
    meta = {W: [k1]} if fork_bool("known_w") else {"s.other": [k1]}
    return meta, exp, exp


def b_insert_explicit_union(self, n):
    kx, ky = n["zqkx"], n["zqky"]
    k1, k2 = K("k1", self.length), K("k2", self.length)
    distinct(k1, k2)
    distinct(kx, ky)
    exp = [(C(T1, "ca"), C(W, low(kx))), (C(T1, "cb"), C(W, low(ky))), (C(T2, "cc"), C(W, low(kx))), (C(T2, "cd"), C(W, low(ky)))]
    meta = {W: [k1, k2]} if fork_bool("known_w") else {"s.other": [k1]}
    return meta, exp, exp


def b_star_into_known_target(self, n):
    """SELECT * over a known table into a target whose columns are known too: expanded AND paired by position"""
    k1, k2, k3, k4 = K("k1", self.length), K("k2", self.length), K("k3", self.length), K("k4", self.length)
    distinct(k1, k2)
    distinct(k3, k4)
    kn1, knw = fork_bool("known_t1"), fork_bool("known_w")
    meta = {}
    if kn1:
        meta[T1] = [k1, k2]
    if knw:
        meta[W] = [k3, k4]
    if not meta:
        meta = {"s.other": [k1]}
    if kn1 and knw:
        exp = [(C(T1, low(k1)), C(W, low(k3))), (C(T1, low(k2)), C(W, low(k4)))]
    elif kn1:
        exp = [(C(T1, low(k1)), C(W, low(k1))), (C(T1, low(k2)), C(W, low(k2)))]
    else:
        exp = [(C(T1, "*"), C(W, "*"))]
    return meta, exp, [(C(T1, "*"), C(W, "*"))]


def b_star_into_known_target_classify(self, names, meta, got, exp):
    # recorded finding: source and target both known -> the wildcard is expanded by NAME, not by position, and columns the
    # target already lists are dropped: every reported pair is (t1.k -> w.k) for a column k of t1, some or all are missing
    if T1 in meta and W in meta:
        byname = [(C(T1, low(k)), C(W, low(k))) for k in meta[T1]]
        has = lambda pairs, a, b: any(bool(x == a) and bool(y == b) for x, y in pairs)
        if all(has(byname, a, b) for a, b in got.pairs):
            return "C13-star-into-known-target-paired-by-name"
    return None


def b_unknown_everything(self, n):
    k1 = K("k1", self.length)
    e = [(C(T1, "ca"), C(W, "ca")), (C(T2, "cb"), C(W, "cb")), ("cc", C(W, "cc"))]
    return {"s.other": [k1], "x.t1": [SymStr.const("cc")]}, e, e


def b_insert_positions_union(self, n):
    k1 = K("k1", self.length)
    if fork_bool("known_w"):
        return {W: [k1]}, [(C(T1, "ca"), C(W, low(k1))), (C(T2, "cb"), C(W, low(k1)))], None
    return {"s.other": [k1]}, [(C(T1, "ca"), C(W, "ca")), (C(T2, "cb"), C(W, "ca"))], None


def b_ctas_ignores_target_metadata(self, n):
    k1 = K("k1", self.length)
    e = [(C(T1, "ca"), C(W, "ca"))]
    return {W: [k1]}, e, e


TEMPLATES = {
    "star_single": ("INSERT INTO s.w SELECT * FROM s.t1", b_star_single, None),
    "star_join": ("INSERT INTO s.w SELECT * FROM s.t1 JOIN s.t2 ON t1.id = t2.id", b_star_join, b_star_join_classify),
    "qualified_star": ("INSERT INTO s.w SELECT a.*, b.cb FROM s.t1 AS a JOIN s.t2 AS b ON a.id = b.id", b_qualified_star, None),
    "star_from_derived": ("INSERT INTO s.w SELECT * FROM (SELECT * FROM s.t1) AS d", b_star_derived, None),
    "star_in_cte": ("INSERT INTO s.w WITH c AS (SELECT * FROM s.t1) SELECT * FROM c", b_star_derived, b_star_cte_classify),
    "unqualified_in_join": ("INSERT INTO s.w SELECT zqkx FROM s.t1 AS a JOIN s.t2 AS b ON a.id = b.id", b_unqualified, None),
    "unqualified_free_tables": ("INSERT INTO s.w SELECT zqkx FROM zqs1.zqt1 AS a JOIN zqs2.zqt2 AS b ON a.id = b.id", b_unqualified_free_tables, None),
    "unqualified_free_tables_noalias": ("INSERT INTO s.w SELECT zqkx FROM zqs1.zqt1 JOIN zqs2.zqt2 ON zqs1.zqt1.id = zqs2.zqt2.id", b_unqualified_free_tables, None),
    "unqualified_comma_join": ("INSERT INTO s.w SELECT zqkx FROM s.t1, s.t2", b_unqualified, None),
    "star_into_known_target": ("INSERT INTO s.w SELECT * FROM s.t1", b_star_into_known_target, b_star_into_known_target_classify),
    "insert_positions": ("INSERT INTO s.w SELECT ca, cb FROM s.t1", b_insert_positions, None),
    "insert_explicit_list": ("INSERT INTO s.w (zqkx, zqky) SELECT ca, cb FROM s.t1", b_insert_explicit_list, None),
    "insert_explicit_shorter": ("INSERT INTO s.w (zqkx) SELECT ca FROM s.t1", b_insert_explicit_shorter, None),
    "insert_explicit_longer": ("INSERT INTO s.w (zqkx, zqky) SELECT ca, cb FROM s.t1", b_insert_explicit_longer, None),
    "insert_explicit_union": ("INSERT INTO s.w (zqkx, zqky) SELECT ca, cb FROM s.t1 UNION ALL SELECT cc, cd FROM s.t2", b_insert_explicit_union, None),
    "insert_explicit_cte": ("INSERT INTO s.w (zqkx, zqky) WITH c AS (SELECT ca, cb FROM s.t1) SELECT ca, cb FROM c", b_insert_explicit_list, None),
    "unknown_tables": ("INSERT INTO s.w SELECT a.ca, b.cb, cc FROM s.t1 AS a JOIN s.t2 AS b ON a.id = b.id", b_unknown_everything, None),
    "insert_positions_union": ("INSERT INTO s.w SELECT ca FROM s.t1 UNION ALL SELECT cb FROM s.t2", b_insert_positions_union, None),
    "ctas_target_metadata": ("CREATE TABLE s.w AS SELECT ca FROM s.t1", b_ctas_ignores_target_metadata, None),
    # the query of an INSERT may be parenthesised (a bracketed child of the statement, like a column list), or start with WITH
    "insert_positions_paren": ("INSERT INTO s.w (SELECT ca, cb FROM s.t1)", b_insert_positions, None),
    "insert_positions_paren_union": ("INSERT INTO s.w (SELECT ca FROM s.t1 UNION ALL SELECT cb FROM s.t2)", b_insert_positions_union, None),
    "insert_explicit_paren": ("INSERT INTO s.w (zqkx, zqky) (SELECT ca, cb FROM s.t1)", b_insert_explicit_list, None),
    "insert_positions_cte": ("INSERT INTO s.w WITH c AS (SELECT ca, cb FROM s.t1) SELECT ca, cb FROM c", b_insert_positions, None),
    "view_target_metadata": ("CREATE VIEW s.w AS SELECT ca FROM s.t1", b_ctas_ignores_target_metadata, None),
}
# statement types differ between grammars (create_table_as_statement under the postgres family, create_table_as_select_statement
# under impala, INSERT OVERWRITE under the hive family): the metadata rules are the same under each of them
DIALECT_VARIANTS = {
    "ctas_target_metadata": ["postgres", "redshift", "impala", "sparksql", "snowflake", "tsql"],
    "insert_positions": ["postgres", "sparksql", "tsql", "mysql"],
    "insert_explicit_list": ["postgres", "sparksql", "tsql"],
    "star_single": ["postgres", "sparksql"],
    "insert_positions_paren": ["postgres", "sparksql"],
}


class CorpusUnrelatedOb(TemplateObligation):
    """a corpus statement under a provider that knows only unrelated tables: exactly the no-provider answer"""

    def __init__(self, key, st):
        from checks import gen

        self.st = st
        self.sql = gen.Renderer().stmt(st)
        self.stmts = [self.sql]
        self.key = "unrelated/" + key

    def prepare(self):
        self.script = LiftedScript(self.stmts, "ansi")
        self.script0 = LiftedScript(self.stmts, "ansi")

    def body(self):
        from sqllineage.core.metadata.dummy import DummyMetaDataProvider
        from checks.tpl import make_names, reentrant_slots, choose_free
        from lx.tree import PLACEHOLDER

        slots = list(dict.fromkeys(m.lower() for m in PLACEHOLDER.findall(self.sql)))
        cand = [s for s in slots if s not in reentrant_slots(self.st)]
        names = make_names(slots, ("t", "s"), 2, free_slots=choose_free(cand, ("t", "s"), 3, ("t",), self.key))
        k1 = K("k1", 2)
        md = {SymStr.const("other.tab"): [k1, SymStr.const("ca")], SymStr.const("<default>.unrelated"): [SymStr.const("cb")]}
        a = dump_runner(self.script.runner(names, provider=DummyMetaDataProvider(md)))
        b = dump_runner(self.script0.runner(names, provider=DummyMetaDataProvider()))
        exp = Expect(b.sources, b.targets, b.intermediates, b.pairs)
        return self.verdict(names, a, exp, extra={"meta": md})

    def concretise(self, verdict, model):
        out = super().concretise(verdict, model)
        out["metadata"] = {k: list(v) for k, v in out["extra"]["meta"].items()}
        return out

    def replay(self, conc, verdict_ok):
        from lx import replay as R

        r1 = R.run_real(conc["sql"], "ansi", metadata=conc["metadata"])
        r0 = R.run_real(conc["sql"], "ansi")
        if not (r1.get("ok") and r0.get("ok")):
            return {"real_ok": False, "lifted_matches": False, "detail": {"r1": r1.get("error"), "m": r1.get("message")}}
        return {"real_ok": R.same_dump(r1, r0), "lifted_matches": R.same_dump(r1, conc["lifted"]),
                "detail": {"with": r1["pairs"], "without": r0["pairs"]}}


def obligations(tier, seed):
    import random

    from checks import corpus

    obs = []
    lens = [2] if tier == "quick" else [1, 2, 3]
    for name, (sql, build, cl) in TEMPLATES.items():
        for ln in lens:
            ob = MetaOb(name, sql, build, ln)
            if cl:
                ob.classify = cl.__get__(ob)
            obs.append(ob)
        for d in DIALECT_VARIANTS.get(name, []):
            ob = MetaOb(name, sql, build, 2, dialect=d)
            if cl:
                ob.classify = cl.__get__(ob)
            obs.append(ob)
    tpl = [(k, st) for k, st in corpus.build(tier, seed) if st.kind in ("insert", "ctas", "view", "update", "merge")]
    rnd = random.Random("c13/%s" % seed)
    for k, st in rnd.sample(tpl, 30 if tier == "quick" else len(tpl)):
        obs.append(CorpusUnrelatedOb(k, st))
    return obs
