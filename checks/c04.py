"""
C04  Column lineage chains across statements.

The real LineageRunner on 2-4 statement scripts in which later statements read earlier targets; the intermediate
table names and the column names are FREE, so "the column consumed downstream is the one produced upstream" and
"the table read is the one written" are solver case splits.  Expected result: the relational composition of the
per-statement oracle dataflows (checks/gen.py), computed on the same symbolic names: an end-to-end pair (r, l)
for every root column r (nothing feeds it) and leaf column l (feeds nothing) connected by a chain of direct
dependencies; columns not consumed downstream end at the intermediate table.  Table roles follow C03's definition.
With a provider in use, SELECT * from / unqualified columns of a table created earlier in the script use the
columns the session learned.
"""
from __future__ import annotations

from checks import gen
from checks.c03 import Spec
from checks.common import D, Expect, TemplateObligation, cat
from checks.gen import Col, Der, Func, Item, J, Lit, Sel, SetOp, Star, Stmt, Tab, With, Arith
from checks.tpl import make_names
from lx.check import Verdict
from lx.engine import SymStr, eng, f_not
from lx.lifted import LiftedScript, dump_runner, set_eq
from lx.tree import PLACEHOLDER

PID = "C04"
BOUNDS = ("12 chain shapes of 2-4 statements (linear chain, fan-in into one intermediate, fan-out, join with a base table downstream, "
          "expression/alias hops, CTE and derived-table hops, CTAS / CREATE VIEW / INSERT, explicit column list hop, session metadata: "
          "SELECT * and unqualified column from a table created earlier); free: the intermediate tables' names at the write and at "
          "the read site independently (so 'reads what was written' is a case, not a given) and 2-4 column names; 2-character bodies "
          "(thorough: 1-3); with and without a provider")
STUBS = ["sqllineage.runner.split / SqlFluffLineageAnalyzer._list_specific_statement_segment (parser boundary)"]
ASSUMPTIONS = ["SQL validity assumptions of C01/C02 per statement; a statement does not read the table it writes",
               "base tables (ta, tb, tc) and the final target (tw) have fixed names that cannot coincide with free ones"]

T = lambda n: cat(D, ".", n)


def compose(edges):
    """end-to-end pairs of the composed dataflow: (root, leaf) connected by a path; roots have no incoming edge,
    leaves no outgoing edge and belong to a table (printed with a dot)"""
    nodes = []
    for a, b in edges:
        for x in (a, b):
            if not any(bool(x == y) for y in nodes):
                nodes.append(x)
    idx = lambda x: next(i for i, y in enumerate(nodes) if bool(x == y))
    E = set((idx(a), idx(b)) for a, b in edges)
    n = len(nodes)
    reach = [[(i, k) in E for k in range(n)] for i in range(n)]
    for m in range(n):
        for i in range(n):
            if reach[i][m]:
                for k in range(n):
                    if reach[m][k]:
                        reach[i][k] = True
    roots = [i for i in range(n) if not any((k, i) in E for k in range(n))]
    leaves = [i for i in range(n) if not any((i, k) in E for k in range(n))]
    return [(nodes[r], nodes[l]) for r in roots for l in leaves if reach[r][l]]


def ins(target, q, cols=None, kind="insert"):
    return Stmt(kind, target=Tab(target), q=q, cols=cols)


def sel(cols, table, alias=None):
    return Sel([c if isinstance(c, Item) else Item(Col(None, c)) for c in cols], [J("first", Tab(table, alias=alias))])


# chain shapes: name -> list of Stmt.  zqt1/zqt2.. = intermediate table at write / read site, zqk* = columns
SHAPES = {
    "linear2": [ins("zqt1", sel(["zqk1", "zqk2"], "ta")), ins("tw", sel(["zqk3"], "zqt2"))],
    "linear3": [ins("zqt1", sel(["zqk1"], "ta")), ins("zqt3", sel(["zqk2"], "zqt2")), ins("tw", sel(["zqk3"], "zqt4"))],
    "alias_hop": [ins("zqt1", sel([Item(Col(None, "ca"), alias="zqk1"), Item(Col(None, "cb"), alias="zqk2")], "ta")),
                  ins("tw", sel([Item(Col(0, "zqk3"), alias="cz")], "zqt2", alias="al1"))],
    "expr_hop": [ins("zqt1", sel([Item(Func("coalesce", [Col(None, "ca"), Col(None, "cb")]), alias="zqk1")], "ta")),
                 ins("tw", sel([Item(Arith("+", Col(None, "zqk2"), Lit("1")), alias="cz")], "zqt2"))],
    "fan_in": [ins("zqt1", sel(["zqk1"], "ta")), ins("zqt2", sel(["zqk2"], "tb")), ins("tw", sel(["zqk3"], "zqt3"))],
    "fan_out": [ins("zqt1", sel(["zqk1", "zqk2"], "ta")), ins("tw", sel(["zqk3"], "zqt2")), ins("tv", sel(["zqk4"], "zqt3"))],
    "join_downstream": [ins("zqt1", sel(["zqk1"], "ta")),
                        ins("tw", Sel([Item(Col(0, "zqk2")), Item(Col(1, "cb"))], [J("first", Tab("zqt2", alias="al1")), J("JOIN", Tab("tb", alias="al2"), "on")]))],
    "ctas_view": [ins("zqt1", sel(["zqk1", "zqk2"], "ta"), kind="ctas"), ins("tw", sel(["zqk3"], "zqt2"), kind="view")],
    "collist_hop": [ins("zqt1", sel(["ca", "cb"], "ta"), cols=["zqk1", "zqk2"]), ins("tw", sel(["zqk3"], "zqt2"))],
    "derived_hop": [ins("zqt1", sel(["zqk1"], "ta")),
                    ins("tw", Sel([Item(Col(0, "zqk2"))], [J("first", Der(sel(["zqk2"], "zqt2"), alias="dv1"))]))],
    "cte_hop": [ins("zqt1", sel(["zqk1"], "ta")),
                ins("tw", With([("ct1", sel(["zqk2"], "zqt2"))], Sel([Item(Col(None, "zqk2"))], [J("first", Tab("ct1"))])))],
    "two_derived_aliases": [ins("tw", Sel([Item(Col(0, "zqk1"))], [J("first", Der(sel(["zqk1"], "ta"), alias="zqd1"))])),
                            ins("tv", Sel([Item(Col(0, "zqk2"))], [J("first", Der(sel(["zqk2"], "tb"), alias="zqd2"))]))],
    "two_cte_names": [ins("tw", With([("zqc1", sel(["zqk1"], "ta"))], Sel([Item(Col(None, "zqk1"))], [J("first", Tab("zqc1"))]))),
                      ins("tv", With([("zqc2", sel(["zqk2"], "tb"))], Sel([Item(Col(None, "zqk2"))], [J("first", Tab("zqc2"))])))],
    # a value written back to the table it came from, through a helper table: the path visits two columns of one table
    "write_back": [ins("zqt1", sel([Item(Col(None, "ca"), alias="zqk1")], "ta")),
                   ins("zqt2", sel([Item(Col(None, "zqk1"), alias="zqk2")], "zqt1")),
                   ins("zqt1", sel([Item(Col(None, "zqk2"), alias="zqk3")], "zqt2")),
                   ins("tw", sel([Item(Col(None, "zqk3"), alias="cz")], "zqt1"))],
    "union_hop": [ins("zqt1", SetOp("UNION ALL", [sel(["zqk1"], "ta"), sel(["cb"], "tb")])), ins("tw", sel(["zqk2"], "zqt2"))],
}


class ChainOb(TemplateObligation):
    def __init__(self, name, stmts, length=2, provider=False):
        self.name, self.sts, self.length, self.provider = name, stmts, length, provider
        self.stmts = [gen.Renderer().stmt(s) for s in stmts]
        self.key = "chain/%s/len%d%s" % (name, length, "/provider" if provider else "")
        self.slots = list(dict.fromkeys(m.lower() for s in self.stmts for m in PLACEHOLDER.findall(s)))

    def body(self):
        from sqllineage.core.metadata.dummy import DummyMetaDataProvider

        names = make_names(self.slots, ("t", "k", "d", "c"), self.length)
        edges, spec = [], Spec()
        session = []     # what a provider's session learned: (table, [column names in order])
        for st in self.sts:
            o = gen.Oracle(names)
            if self.provider and st.kind == "insert" and not st.cols:
                # with a provider in use, an INSERT without column list takes its target column names, by position, from the
                # columns the session already knows for that table (C13 / C04: tables written earlier are known)
                def rename(tgt, outs, session=session):
                    for t, cols in reversed(session):
                        if bool(t == tgt):
                            return list(cols) if len(cols) == len(outs) else outs
                    return outs
                o.rename_outputs = rename
            e = o.stmt(st)
            tgt = e["targets"][0]
            if self.provider:
                known = [c for c, _ in o.outcols if c is not None]
                ded = []
                for c in known:
                    if not any(bool(c == x) for x in ded):
                        ded.append(c)
                session.append((tgt, ded))
            for r in e["sources"]:
                eng().assume(f_not(r._eq(tgt)))          # a statement does not read the table it writes
            spec.dml(list(e["sources"]), tgt)
            edges += e["pairs"]
            # output column names of one statement are distinct
            outs = []
            for _, b in e["pairs"]:
                if not any(b is x for x in outs):
                    outs.append(b)
        # distinct column slots inside one select list
        for st in self.sts:
            q = st.q
            sels = q.branches if isinstance(q, SetOp) else [q.body if isinstance(q, With) else q]
            for s in sels:
                nm = [names[i.alias or i.e.name] for i in s.items if (i.alias or getattr(i.e, "name", "")).startswith("zq")]
                for i in range(len(nm)):
                    for k in range(i + 1, len(nm)):
                        eng().assume(f_not(nm[i].lower()._eq(nm[k].lower())))
            if st.cols:
                nm = [names[c] for c in st.cols]
                eng().assume(f_not(nm[0].lower()._eq(nm[1].lower())))
        pairs = compose(edges)
        src, tgt, mid = spec.roles()
        exp = Expect(sources=src, targets=tgt, intermediates=mid, pairs=pairs)
        prov = DummyMetaDataProvider({SymStr.const("other.tab"): [SymStr.const("cq")]}) if self.provider else None
        lifted = dump_runner(self.script.runner(names, provider=prov) if prov else self.script.runner(names))
        return self.verdict(names, lifted, exp)

    def real_kwargs(self, conc):
        return {"metadata": {"other.tab": ["cq"]}} if self.provider else {}


# ---- session metadata (provider in use): hand-written expectations -----------------------------------------

class SessionOb(TemplateObligation):
    def __init__(self, name, sql, expect, length=2):
        self.name, self.expect, self.length = name, expect, length
        self.stmts = list(sql)
        self.key = "session/%s/len%d" % (name, length)
        self.slots = list(dict.fromkeys(m.lower() for s in self.stmts for m in PLACEHOLDER.findall(s)))

    def body(self):
        from sqllineage.core.metadata.dummy import DummyMetaDataProvider

        names = make_names(self.slots, ("k",), self.length)
        low = lambda s: names[s].lower()
        low.names = names
        exp = self.expect(low)
        md = {SymStr.const("other.tab"): [SymStr.const("cq")]}
        finding = None
        if isinstance(exp, tuple):
            exp, extra_md, region = exp
            md.update(extra_md)
        else:
            region = None
        prov = DummyMetaDataProvider(md)
        lifted = dump_runner(self.script.runner(names, provider=prov))
        ok = self.compare(lifted, exp)
        if not ok and region is not None:
            finding = region(lifted)
        return self.verdict(names, lifted, exp, ok=ok, finding=finding, extra={"meta": md})

    def concretise(self, verdict, model):
        out = super().concretise(verdict, model)
        out["metadata"] = {k: list(v) for k, v in out["extra"]["meta"].items()}
        return out

    def real_kwargs(self, conc):
        return {"metadata": conc["metadata"]}


M, A, B, W = "s.m", "s.ta", "s.tb", "s.w"
Cc = lambda t, c: cat(t, ".", c)


def e_star(low):
    eng().assume(f_not(low("zqk1")._eq(low("zqk2"))))
    return Expect(sources=[A], targets=[W], intermediates=[M],
                  pairs=[(Cc(A, low("zqk1")), Cc(W, low("zqk1"))), (Cc(A, low("zqk2")), Cc(W, low("zqk2")))])


def e_unq(low):
    # kx is attributed to the table created earlier iff that table defines it; otherwise unresolved
    if bool(low("zqk2") == low("zqk1")):
        return Expect(sources=[A, B], targets=[W], intermediates=[M], pairs=[(Cc(A, low("zqk1")), Cc(W, low("zqk2")))])
    return Expect(sources=[A, B], targets=[W], intermediates=[M],
                  pairs=[(Cc(A, low("zqk1")), Cc(M, low("zqk1"))), (low("zqk2"), Cc(W, low("zqk2")))])


def e_star_insert(low):
    eng().assume(f_not(low("zqk1")._eq(low("zqk2"))))
    return Expect(sources=[A], targets=[W], intermediates=[M],
                  pairs=[(Cc(A, "ca"), Cc(W, low("zqk1"))), (Cc(A, "cb"), Cc(W, low("zqk2")))])


def e_two_unresolved(low):
    """two statements each select an unqualified column from a different join; metadata knows s.ta only"""
    k1, k2, kx = low("zqk1"), low("zqk2"), low("zqk3")
    p1 = (Cc(A, k1), Cc(W, k1)) if bool(k1 == kx) else (k1, Cc(W, k1))
    p2 = (k2, Cc("s.v", k2))        # neither s.tc nor s.td is known: unresolved, whatever the first statement did
    exp = Expect(sources=[A, B, "s.tc", "s.td", "s.other"], targets=[W, "s.v"], intermediates=[], pairs=[p1, p2])

    def region(lifted):
        # recorded finding: both statements use the same unqualified name AND the known table of the FIRST statement lists it:
        # the two unresolved columns are one graph node and the second statement's column is attributed to s.ta
        if bool(k1 == k2) and bool(k1 == kx) and set_eq(lifted.pairs, [(Cc(A, k1), Cc(W, k1)), (Cc(A, k1), Cc("s.v", k1))]):
            return "C04-same-unresolved-column-name-merged-across-statements"
        return None
    return exp, {SymStr.const(A): [low("zqk3")]}, region


def e_star_catalog_stale(low):
    """the table created in the script is ALSO in the provider's catalog with another column list: what the script
    defined is what later statements see"""
    old = SymStr.var("kold", 2, "qzjQZJ_07", "qzjQZJ").lower()
    e = e_star(low)
    return e, {SymStr.const(M): [old]}, None


def e_positional_catalog_stale(low):
    old1 = SymStr.var("kold1", 2, "qzjQZJ_07", "qzjQZJ").lower()
    old2 = SymStr.var("kold2", 2, "qzjQZJ_07", "qzjQZJ").lower()
    eng().assume(f_not(old1._eq(old2)))
    eng().assume(f_not(low("zqk1")._eq(low("zqk2"))))
    # CTAS defines s.m(k1, k2); the later INSERT without column list names its positions after those
    exp = Expect(sources=[A, B], targets=[M], intermediates=[],
                 pairs=[(Cc(A, low("zqk1")), Cc(M, low("zqk1"))), (Cc(A, low("zqk2")), Cc(M, low("zqk2"))),
                        (Cc(B, "ca"), Cc(M, low("zqk1"))), (Cc(B, "cb"), Cc(M, low("zqk2")))])
    return exp, {SymStr.const(M): [old1, old2]}, None


def e_star_chain(low):
    """wildcards chained through a table whose source is unknown to the provider: the wildcard lineage runs end to end"""
    return Expect(sources=[A], targets=[W], intermediates=[M], pairs=[(Cc(A, "*"), Cc(W, "*"))])


def e_star_chain3(low):
    return Expect(sources=[A], targets=[W], intermediates=[M, "s.m2"], pairs=[(Cc(A, "*"), Cc(W, "*"))])


def e_star_chain_src(low):
    e = e_star_chain(low)
    e.sources = [A, "s.other"]
    return e


def e_star_chain3_src(low):
    e = e_star_chain3(low)
    e.sources = [A, "s.other"]
    return e


def e_star_redefined(low):
    """the table is defined twice: later statements see the LATEST definition"""
    k1, k2 = low("zqk1"), low("zqk2")
    if bool(k1 == k2):
        pairs = [(Cc(A, k1), Cc(W, k1)), (Cc(B, k1), Cc(W, k1))]
    else:
        pairs = [(Cc(A, k1), Cc(M, k1)), (Cc(B, k2), Cc(W, k2))]
    return Expect(sources=[A, B], targets=[W], intermediates=[M], pairs=pairs)


def e_star_between_redefinitions(low):
    """a reader between the two definitions sees the first, a reader after them the second"""
    k1, k2 = low("zqk1"), low("zqk2")
    V = "s.v"
    if bool(k1 == k2):
        pairs = [(Cc(A, k1), Cc(W, k1)), (Cc(B, k1), Cc(W, k1)), (Cc(A, k1), Cc(V, k1)), (Cc(B, k1), Cc(V, k1))]
    else:
        pairs = [(Cc(A, k1), Cc(W, k1)), (Cc(B, k2), Cc(V, k2))]
    return Expect(sources=[A, B], targets=[W, V], intermediates=[M], pairs=pairs)


def e_two_tables_by_case(low):
    """two QUOTED tables written in one script (their spellings may differ by case only: distinct tables): a later wildcard
    over one of them expands to the columns the script gave THAT table"""
    n = low.names
    t3, t4 = cat("s.", n["zqk3"]), cat("s.", n["zqk4"])
    eng().assume(f_not(n["zqk3"]._eq(n["zqk4"])))
    k1, k2 = low("zqk1"), low("zqk2")
    return Expect(sources=[A, B], targets=[W, t4], intermediates=[t3], pairs=[(Cc(A, k1), Cc(W, k1)), (Cc(B, k2), Cc(t4, k2))])


SESSION = {
    "two_quoted_tables_by_case": (['CREATE TABLE s."zqk3" AS SELECT zqk1 FROM s.ta', 'CREATE TABLE s."zqk4" AS SELECT zqk2 FROM s.tb',
                                   'INSERT INTO s.w SELECT * FROM s."zqk3"'], e_two_tables_by_case),
    "star_from_redefined": (["CREATE TABLE s.m AS SELECT zqk1 FROM s.ta", "CREATE TABLE s.m AS SELECT zqk2 FROM s.tb", "INSERT INTO s.w SELECT * FROM s.m"], e_star_redefined),
    "star_between_redefinitions": (["CREATE TABLE s.m AS SELECT zqk1 FROM s.ta", "INSERT INTO s.w SELECT * FROM s.m",
                                    "CREATE TABLE s.m AS SELECT zqk2 FROM s.tb", "INSERT INTO s.v SELECT * FROM s.m"], e_star_between_redefinitions),
    "star_chain3_unknown_source": (["INSERT INTO s.m SELECT * FROM s.ta", "CREATE TABLE s.m2 AS SELECT * FROM s.m", "INSERT INTO s.w SELECT * FROM s.m2",
                                    "SELECT zqk1 FROM s.other"], e_star_chain3_src),
    "star_chain_unknown_source": (["CREATE TABLE s.m AS SELECT * FROM s.ta", "INSERT INTO s.w SELECT * FROM s.m", "SELECT zqk1 FROM s.other"], e_star_chain_src),
    "star_from_created_stale_catalog": (["CREATE TABLE s.m AS SELECT zqk1, zqk2 FROM s.ta", "INSERT INTO s.w SELECT * FROM s.m"], e_star_catalog_stale),
    "positional_insert_stale_catalog": (["CREATE TABLE s.m AS SELECT zqk1, zqk2 FROM s.ta", "INSERT INTO s.m SELECT ca, cb FROM s.tb"], e_positional_catalog_stale),
    "two_unresolved_same_name": (["INSERT INTO s.w SELECT zqk1 FROM s.ta AS a JOIN s.tb AS b ON a.id = b.id",
                                  "INSERT INTO s.v SELECT zqk2 FROM s.tc AS c JOIN s.td AS d ON c.id = d.id",
                                  "SELECT zqk3 FROM s.other"], e_two_unresolved),
    "star_from_created": (["CREATE TABLE s.m AS SELECT zqk1, zqk2 FROM s.ta", "INSERT INTO s.w SELECT * FROM s.m"], e_star),
    "unqualified_from_created": (["CREATE TABLE s.m AS SELECT zqk1 FROM s.ta",
                                  "INSERT INTO s.w SELECT zqk2 FROM s.m AS a JOIN s.tb AS b ON a.id = b.id"], e_unq),
    "star_from_inserted_with_list": (["INSERT INTO s.m (zqk1, zqk2) SELECT ca, cb FROM s.ta", "INSERT INTO s.w SELECT * FROM s.m"], e_star_insert),
}


def obligations(tier, seed):
    obs = []
    lens = [2] if tier == "quick" else [1, 2, 3]
    for name, sts in SHAPES.items():
        for ln in lens:
            obs.append(ChainOb(name, sts, ln))
        obs.append(ChainOb(name, sts, 2, provider=True))
    for name, (sql, ex) in SESSION.items():
        for ln in lens:
            obs.append(SessionOb(name, sql, ex, ln))
    return obs
