"""
C15  Configuration overrides are scoped and thread-local.

Real `_SQLLineageConfigLoader` objects; `get_ident` returns the scheduler's current SYMBOLIC thread id and the
environment is a stub with symbolic values.

(1) step:   simulation proof, one inductive step.  Abstract state per thread: idle | pending(K) | inside(K)
            (pending = the override call returned, the scope is not entered yet: the sub-operation point at which
            other threads may run).  The concrete pre-state is f(abstract) for an ARBITRARY abstract state of 3
            threads with symbolic ids and symbolic override values; one arbitrary operation by an arbitrary thread
            runs on the real object; asserted: raises iff the specification rejects, concrete' == f(abstract'),
            and every read by every thread equals the specification's read (thread's own scope, else environment,
            else default, coerced).  Since f(initial) is the initial object, one step covers histories of any
            length and every operation-level interleaving, including thread-id reuse by a later thread (an idle
            thread has no footprint).
(2) seq:    bounded sequences from the initial state (cross-check that the step's pre-states are not vacuous and
            that the invariant is not too weak); also the form in which counterexamples are replayed with real
            threads on the unmodified library.
(3) coerce: result type/value of parse_value per key for symbolic/enumerated inputs.
"""
from __future__ import annotations

import itertools

from lx.lifted import TWIN
from lx.check import Obligation, Verdict
from lx.engine import SymInt, SymStr, Unsupported, eng, sym_value

PID = "C15"
BOUNDS = ("step: the acting thread and one arbitrary other thread with symbolic, distinct 16-bit ids; abstract state per thread in {idle, pending(K), "
          "inside(K)} with K any subset of {DEFAULT_SCHEMA (symbolic 2-char text), TSQL_NO_SEMICOLON (free bool)}; one operation "
          "from {call(K') with K' a sub-list of valid keys in either order, optionally with an unknown key first/last; enter; "
          "exit; exit-by-exception; read(key); assign(key)} by any thread; environment values symbolic per key; "
          "sequences: up to 4 (quick) / 5 (thorough) operations from the initial state over 2 threads")
STUBS = ["_SQLLineageConfigLoader.get_ident -> scheduler's current symbolic thread id",
         "os.environ as seen by sqllineage.config -> mapping with symbolic values"]
ASSUMPTIONS = ["a single dict/set operation is atomic under the GIL, so operation-level interleavings suffice",
               "thread ids of simultaneously live threads are distinct",
               "reads by a thread between its override call and the scope entry (pending) are not specified"]

KEYS = ["DEFAULT_SCHEMA", "TSQL_NO_SEMICOLON", "LATERAL_COLUMN_ALIAS_REFERENCE", "DIRECTORY"]
TYPES = {"DEFAULT_SCHEMA": str, "TSQL_NO_SEMICOLON": bool, "LATERAL_COLUMN_ALIAS_REFERENCE": bool, "DIRECTORY": str}
BOOL_TEXTS = ["true", "True", "1", "0", "false", "on", "", "2", "yes", "off", " y ", "OK"]
TRUE_TEXTS = ("true", "on", "ok", "y", "yes", "1")


def spec_parse(value, typ):
    """the documented coercion: bool keys accept ints and the usual truthy words; everything else through the type"""
    if typ is bool:
        if isinstance(value, bool):
            return value
        if isinstance(value, int):
            return value != 0
        s = value.plain() if isinstance(value, SymStr) else value
        try:
            return int(s) != 0
        except ValueError:
            return s.lower().strip() in TRUE_TEXTS
    return value if isinstance(value, str) else str(value)


def fork_choice(tag, n):
    """a symbolic choice in range(n), forked into a concrete int"""
    if n <= 1:
        return 0
    v = eng().int_var(tag, 0, n - 1)
    for i in range(n):
        if eng().decide(v == i):
            return i
    raise Unsupported("choice out of range")


def fork_bool(tag):
    return eng().decide(eng().bool_var(tag))


class Sched:
    def __init__(self):
        self.current = None


class EnvShim:
    def __init__(self, real_os, environ):
        self._os = real_os
        self.environ = environ

    def __getattr__(self, k):
        return getattr(self._os, k)


def fresh_loader(sched, environ):
    import os as real_os

    import sqllineage.config as cfgmod

    cls = cfgmod._SQLLineageConfigLoader
    for sym in ("get_ident", "parse_value", "config"):
        if not hasattr(cls, sym):
            from lx.engine import HarnessError

            raise HarnessError("boundary symbol _SQLLineageConfigLoader.%s is gone" % sym)
    cls.get_ident = staticmethod(lambda: sched.current)
    cfgmod.os = EnvShim(real_os, environ)
    return cls()


STEP_KEYS = ["DEFAULT_SCHEMA", "TSQL_NO_SEMICOLON"]   # one str key and one bool key carry the step proof
STEP_BOOL_TEXTS = ["true", "0"]


def sym_env(tag):
    """symbolic environment: the str key absent or set to symbolic text (the bool keys' environment spellings are
    covered by the coerce obligations)"""
    env = {}
    if fork_bool("%s_env_ds_set" % tag):
        env["SQLLINEAGE_DEFAULT_SCHEMA"] = SymStr.var("%s_env_ds" % tag, 2, "qzQ")
    # the bool key of the step proof set to a non-default value through the environment (an override back to the built-in
    # default must still win over it)
    if fork_bool("%s_env_ts_set" % tag):
        env["SQLLINEAGE_TSQL_NO_SEMICOLON"] = SymStr.const("true")
    return env


def default_of(loader, k):
    return loader.config[k][1]


def spec_read(loader, env, st, key):
    """specification of a read by a thread in abstract state st = (mode, overrides)"""
    mode, ov = st
    if mode == "inside" and key in ov and ov[key] is not None:
        return ov[key]
    raw = env.get("SQLLINEAGE_" + key, default_of(loader, key))
    return spec_parse(raw, TYPES[key])


def sym_overrides(tag):
    """an arbitrary stored (already coerced) override dict"""
    ov = {}
    for k in STEP_KEYS:
        if fork_bool("%s_%s_has" % (tag, k)):
            if TYPES[k] is str:
                # the acting thread's stored text may also be the empty string, i.e. equal to the key's built-in default
                empty = tag == "s0" and fork_bool("%s_%s_empty" % (tag, k))
                ov[k] = SymStr.const("") if empty else SymStr.var("%s_%s" % (tag, k), 2, "qzQ")
            else:
                ov[k] = fork_bool("%s_%s_val" % (tag, k))
    return ov


def sym_call_args(tag, with_unknown):
    """kwargs of an override call: an ordered sub-list of the valid keys with RAW (uncoerced) values,
    optionally with an unknown key first or last"""
    items = []
    order = fork_choice(tag + "_ord", 2)
    keys = STEP_KEYS if order == 0 else list(reversed(STEP_KEYS))
    for k in keys:
        if fork_bool("%s_%s_in" % (tag, k)):
            if TYPES[k] is str:
                items.append((k, SymStr.var("%s_%s_raw" % (tag, k), 2, "qzQ")))
            else:
                c = fork_choice("%s_%s_rawkind" % (tag, k), 2)
                items.append((k, [False, SymStr.const("yes")][c]))
    if with_unknown:
        pos = fork_choice(tag + "_unkpos", 2)
        items = ([("BOGUS_KEY", SymStr.const("x"))] + items) if pos == 0 else (items + [("BOGUS_KEY", SymStr.const("x"))])
    return items


def concrete_of(abstract, tids, empties=()):
    """a concrete object state related to the abstract one: pending/inside threads store their overrides, inside
    threads are marked; an idle thread has no entry or (index in `empties`) an EMPTY entry, which no read can observe"""
    tc, ctx = {}, set()
    for i, (t, (mode, ov)) in enumerate(zip(tids, abstract)):
        if mode in ("pending", "inside"):
            tc[t] = dict(ov)
        elif i in empties:
            tc[t] = {}
        if mode == "inside":
            ctx.add(t)
    return tc, ctx


def related(L, abstract, tids):
    """the simulation relation between the real object and the abstract state, up to what reads can observe:
    a thread's EFFECTIVE overrides (stored values that are not None; a missing entry counts as empty) equal the
    abstract overrides for pending/inside threads and are empty for idle ones; scope membership is exact;
    no entry belongs to anybody else"""
    tc, ctx = L._thread_config, L._thread_in_context_manager
    want_ctx = [t for t, (m, _) in zip(tids, abstract) if m == "inside"]
    if not set_eq_ids(ctx, want_ctx):
        return "scope membership differs from the specification's post-state"
    seen = 0
    for t, (mode, ov) in zip(tids, abstract):
        entry = {}
        for k, v in tc.items():
            if k is t or bool(k == t):
                entry = v
                seen += 1
                break
        eff = {k: v for k, v in entry.items() if v is not None}
        want = {k: v for k, v in ov.items() if v is not None} if mode != "idle" else {}
        if not dict_eq(eff, want):
            return "stored overrides differ from the specification's post-state"
    if seen != len(tc):
        return "an entry is stored under an id that is not the caller's"
    return None


def dict_eq(a, b):
    if len(a) != len(b):
        return False
    for k, v in a.items():
        hit = None
        for k2, v2 in b.items():
            if k is k2 or bool(k == k2):
                hit = v2
                break
        else:
            return False
        if isinstance(v, dict):
            if not isinstance(hit, dict) or not dict_eq(v, hit):
                return False
        elif isinstance(v, bool) or isinstance(hit, bool):
            if not (isinstance(v, bool) and isinstance(hit, bool) and v == hit):
                return False
        elif not bool(v == hit):
            return False
    return True


def set_eq_ids(a, b):
    a, b = list(a), list(b)
    return len(a) == len(b) and all(any(x is y or bool(x == y) for y in b) for x in a)


def val_eq(a, b):
    if isinstance(a, bool) or isinstance(b, bool):
        return isinstance(a, bool) and isinstance(b, bool) and a == b
    if isinstance(a, str) and isinstance(b, str):
        return bool(SymStr.const(a) == SymStr.const(b))
    return a == b


OPS = ["call", "call_unknown", "enter", "exit", "exit_exc", "read", "assign"]
N_THREADS = 2   # the acting thread and one ARBITRARY other thread (operations touch only the caller's entries; by symmetry one other thread stands for all)


def classify(op, mode, items):
    """no open finding is recorded for this property (the two found were repaired, see known_findings.json):
    every counterexample is a violation"""
    return None


class StepOb(Obligation):
    """one inductive step from an arbitrary abstract state"""

    max_paths = 400000
    budget_s = 3000

    def __init__(self, op, mode):
        self.op, self.mode = op, mode
        self.key = "step/%s/from-%s" % (op, mode)

    def describe(self):
        return {"key": self.key, "operation": self.op, "acting thread's pre-state": self.mode}

    def body(self):
        from sqllineage.exceptions import ConfigException

        sched = Sched()
        env = sym_env("e")
        L = fresh_loader(sched, env)
        tids = [SymInt.var("tid%d" % i, 1, 60000) for i in range(N_THREADS)]
        for a, b in itertools.combinations(tids, 2):
            eng().assume(a != b)
        # thread 0 acts (wlog: ids are symbolic); its pre-state mode is fixed per obligation, the others are free
        abstract = []
        for i in range(N_THREADS):
            mode = self.mode if i == 0 else ["idle", "pending", "inside"][fork_choice("m%d" % i, 3)]
            ov = sym_overrides("s%d" % i) if mode != "idle" else {}
            abstract.append((mode, ov))
        empties = [i for i in range(N_THREADS) if abstract[i][0] == "idle" and fork_bool("empty%d" % i)]
        tc, ctx = concrete_of(abstract, tids, empties)
        object.__setattr__(L, "_thread_config", tc)
        object.__setattr__(L, "_thread_in_context_manager", ctx)
        op, mode0, ov0 = self.op, abstract[0][0], abstract[0][1]
        sched.current = tids[0]
        items, rkey = [], None
        raised, result = None, None
        post = list(abstract)
        expect_raise = False
        try:
            if op in ("call", "call_unknown"):
                items = sym_call_args("c", op == "call_unknown")
                # specification: an attempt with an unknown key or made inside a scope is rejected and changes nothing
                expect_raise = op == "call_unknown" or mode0 == "inside"
                if not expect_raise:
                    post[0] = ("pending", {k: spec_parse(v, TYPES[k]) for k, v in items})
                L(**dict(items))
            elif op == "enter":
                if mode0 == "inside":
                    expect_raise = True
                elif mode0 == "pending":
                    post[0] = ("inside", ov0)
                else:
                    # entering without a preceding call is not part of the documented use: skip
                    return Verdict(True, {"skipped": "enter from idle"}, nontrivial=False)
                L.__enter__()
            elif op in ("exit", "exit_exc"):
                if mode0 != "inside":
                    return Verdict(True, {"skipped": "exit outside a scope"}, nontrivial=False)
                post[0] = ("idle", {})
                if op == "exit":
                    L.__exit__(None, None, None)
                else:
                    ex = RuntimeError("boom")
                    L.__exit__(RuntimeError, ex, None)
            elif op == "read":
                if mode0 == "pending":
                    return Verdict(True, {"skipped": "read while pending"}, nontrivial=False)
                rkey = STEP_KEYS[fork_choice("rk", len(STEP_KEYS))]
                result = getattr(L, rkey)
            elif op == "assign":
                rkey = KEYS[fork_choice("rk", len(KEYS))]
                expect_raise = True
                setattr(L, rkey, SymStr.const("zz"))
        except ConfigException as e:
            raised = "ConfigException"
        if TWIN["on"]:
            # sensitivity twin: the step also left an override for ANOTHER thread behind
            TWIN["n"] += 1
            object.__getattribute__(L, "_thread_config").setdefault(tids[1], {})["DEFAULT_SCHEMA"] = SymStr.const("lxtwin")
        why = None
        if (raised is not None) != expect_raise:
            why = "raised=%s expected_raise=%s" % (raised, expect_raise)
        if why is None:
            why = related(L, post, tids)
        if why is None and op == "read" and not val_eq(result, spec_read(L, env, abstract[0], rkey)):
            why = "read returned a value other than the specification's"
        if why is None:
            # every later read by every thread agrees with the specification (frame condition included)
            for i in range(N_THREADS):
                if post[i][0] == "pending":
                    continue
                sched.current = tids[i]
                for k in STEP_KEYS:
                    got = getattr(L, k)
                    if not val_eq(got, spec_read(L, env, post[i], k)):
                        why = "thread %d reads %s differently from the specification after the step" % (i, k)
                        break
                if why:
                    break
        data = {"op": op, "abstract": [(m, dict(o)) for m, o in abstract], "items": items, "read_key": rkey,
                "env": dict(env), "why": why}
        fid = classify(op, mode0, items) if why else None
        return Verdict(why is None, data, fid)

    def concretise(self, verdict, model):
        d = sym_value(verdict.data, model)
        return d

    def replay(self, conc, verdict_ok):
        if conc.get("skipped"):
            return {"real_ok": True, "lifted_matches": True, "unreplayed": True}
        from lx import replay as R

        r = R.run_code(REPLAY_STEP % {"c": repr(conc), "keys": repr(KEYS), "true_texts": repr(TRUE_TEXTS)})
        if not r.get("ok"):
            return {"real_ok": False, "lifted_matches": False, "detail": r}
        res = r["result"]
        fid = classify(conc["op"], conc["abstract"][0][0], [tuple(x) for x in conc["items"]]) if not res["ok"] else None
        return {"real_ok": res["ok"], "lifted_matches": res["ok"] == verdict_ok, "detail": res, "finding": fid}


# Replay with REAL threads on the unmodified module-level SQLLineageConfig: each logical thread is a live
# threading.Thread driven step by step; the abstract pre-state is reached through the public API
# (pending: the override call; inside: call + __enter__), then the operation runs and every thread reads every key.
REPLAY_STEP = r'''
import os, threading, queue
c = %(c)s
KEYS = %(keys)s
TRUE = %(true_texts)s
for k in list(os.environ):
    if k.startswith("SQLLINEAGE_"): del os.environ[k]
for k, v in c["env"].items(): os.environ[k] = v
import importlib, sqllineage.config as cm
importlib.reload(cm)
from sqllineage.exceptions import ConfigException
cfg = cm.SQLLineageConfig
TYPES = {k: cfg.config[k][0] for k in KEYS}
def parse(v, t):
    if t is bool:
        if isinstance(v, bool): return v
        try: return int(v) != 0
        except ValueError: return v.lower().strip() in TRUE
    return str(v)
def spec_read(st, key):
    mode, ov = st
    if mode == "inside" and ov.get(key) is not None: return ov[key]
    return parse(os.environ.get("SQLLINEAGE_" + key, cfg.config[key][1]), TYPES[key])
class T(threading.Thread):
    def __init__(s):
        super().__init__(daemon=True); s.q = queue.Queue(); s.r = queue.Queue(); s.start()
    def run(s):
        while True:
            f = s.q.get()
            if f is None: return
            try: s.r.put(("ok", f()))
            except BaseException as e: s.r.put(("exc", type(e).__name__))
    def do(s, f):
        s.q.put(f); return s.r.get(timeout=20)
ths = [T() for _ in c["abstract"]]
post = [(m, dict(o)) for m, o in c["abstract"]]
for th, (mode, ov) in zip(ths, c["abstract"]):
    if mode in ("pending", "inside"): th.do(lambda ov=ov: cfg(**ov) and None)
    if mode == "inside": th.do(lambda: cfg.__enter__())
op, mode0 = c["op"], c["abstract"][0][0]
items = [tuple(x) for x in c["items"]]
expect_raise, res, why = False, None, None
if op in ("call", "call_unknown"):
    expect_raise = op == "call_unknown" or mode0 == "inside"
    if not expect_raise: post[0] = ("pending", {k: parse(v, TYPES[k]) for k, v in items})
    res = ths[0].do(lambda: cfg(**dict(items)) and None)
elif op == "enter":
    expect_raise = mode0 == "inside"
    if mode0 == "pending": post[0] = ("inside", post[0][1])
    res = ths[0].do(lambda: cfg.__enter__())
elif op in ("exit", "exit_exc"):
    post[0] = ("idle", {})
    res = ths[0].do((lambda: cfg.__exit__(None, None, None)) if op == "exit" else (lambda: cfg.__exit__(RuntimeError, RuntimeError("boom"), None)))
elif op == "read":
    res = ths[0].do(lambda: getattr(cfg, c["read_key"]))
    if res[0] == "ok" and not (res[1] == spec_read(c["abstract"][0], c["read_key"]) and type(res[1]) is type(spec_read(c["abstract"][0], c["read_key"]))):
        why = "read %%r, specification %%r" %% (res[1], spec_read(c["abstract"][0], c["read_key"]))
elif op == "assign":
    expect_raise = True
    res = ths[0].do(lambda: setattr(cfg, c["read_key"], "zz"))
raised = res[0] == "exc"
if raised and res[1] != "ConfigException": why = "escaped with " + res[1]
if why is None and raised != expect_raise: why = "raised=%%s expected=%%s" %% (raised, expect_raise)
def check_reads(i, th, note):
    # reads under the witness environment and, because the environment is re-read on every access, under
    # alternative values of each key's variable too (a stale or a lost stored value is observable exactly then)
    for k in KEYS:
        saved = os.environ.get("SQLLINEAGE_" + k)
        try:
            for alt in ([saved] + (["true", "false"] if TYPES[k] is bool else ["altenv", ""])):
                if alt is None: os.environ.pop("SQLLINEAGE_" + k, None)
                else: os.environ["SQLLINEAGE_" + k] = alt
                got = th.do(lambda k=k: getattr(cfg, k))
                want = spec_read(post[i], k)
                if got != ("ok", want) or type(got[1]) is not type(want):
                    return "thread %%d%%s reads %%s = %%r with %%s=%%r, specification says %%r" %% (i, note, k, got, "SQLLINEAGE_" + k, alt, want)
        finally:
            if saved is None: os.environ.pop("SQLLINEAGE_" + k, None)
            else: os.environ["SQLLINEAGE_" + k] = saved
    return None
if why is None:
    for i, th in enumerate(ths):
        if post[i][0] == "pending": continue
        why = check_reads(i, th, "")
        if why: break
if why is None:
    # a thread left between its override call and the scope entry: what it stored must still be there when it enters
    for i, th in enumerate(ths):
        if post[i][0] != "pending": continue
        r = th.do(lambda: cfg.__enter__())
        if r[0] != "ok":
            why = "thread %%d could not enter its pending scope: %%r" %% (i, r); break
        post[i] = ("inside", post[i][1])
        why = check_reads(i, th, ", entering its pending scope after the step,")
        if why: break
for th in ths: th.q.put(None)
result = {"ok": why is None, "why": why}
'''


class SeqOb(Obligation):
    """bounded operation sequences from the initial state, two threads, real object, symbolic ids and values"""

    max_paths = 400000
    budget_s = 3000

    def __init__(self, n, first):
        self.n, self.first = n, first
        self.key = "seq/len%d/first-%s" % (n, first)

    def describe(self):
        return {"key": self.key, "length": self.n}

    def body(self):
        from sqllineage.exceptions import ConfigException

        sched = Sched()
        env = {}
        if fork_bool("envset"):
            env["SQLLINEAGE_DEFAULT_SCHEMA"] = SymStr.var("envv", 2, "qzQ")
        L = fresh_loader(sched, env)
        tids = [SymInt.var("tid%d" % i, 1, 60000) for i in range(2)]
        # thread-id reuse: thread 1 may be a LATER thread that got thread 0's id, once thread 0 is idle for good
        reuse = fork_bool("reuse")
        if not reuse:
            eng().assume(tids[0] != tids[1])
        else:
            eng().assume(tids[0] == tids[1])
        abstract = [("idle", {}), ("idle", {})]
        ops = ["open", "open_unknown", "open_unknown_only", "close", "close_exc", "read"]
        trace = []
        why = None
        fid = None
        started1 = False
        for step in range(self.n):
            t = fork_choice("t%d" % step, 2)
            if reuse:
                # a reused id means thread 0 has finished: it never acts again once thread 1 started, and it must be idle
                if t == 1:
                    if abstract[0][0] != "idle":
                        return Verdict(True, {"skipped": "id reuse before the first thread finished"}, nontrivial=False)
                    started1 = True
                elif started1:
                    return Verdict(True, {"skipped": "finished thread acts"}, nontrivial=False)
            op = self.first if step == 0 else ops[fork_choice("o%d" % step, len(ops))]
            mode, ov = abstract[t]
            sched.current = tids[t]
            if op in ("open", "open_unknown", "open_unknown_only"):
                val = SymStr.var("v%d" % step, 2, "qzQ")
                items = [("DEFAULT_SCHEMA", val)]
                if op == "open_unknown":
                    items = items + [("BOGUS_KEY", "x")] if fork_bool("up%d" % step) else [("BOGUS_KEY", "x")] + items
                if op == "open_unknown_only":
                    items = [("BOGUS_KEY", "x")]
                expect_raise = op != "open" or mode == "inside"
                trace.append((t, op, [list(i) for i in items]))
                raised = False
                try:
                    # what `with L(**items):` does on the way in: the call, then __enter__
                    L(**dict(items))
                    L.__enter__()
                    abstract[t] = ("inside", {"DEFAULT_SCHEMA": val})
                except ConfigException:
                    raised = True
                if raised != expect_raise:
                    why = "step %d: %s by thread %d raised=%s, specification says %s" % (step, op, t, raised, expect_raise)
                    fid = classify("call_unknown" if op != "open" else "call", mode, items)
            elif op in ("close", "close_exc"):
                if mode != "inside":
                    return Verdict(True, {"skipped": "close outside a scope"}, nontrivial=False)
                trace.append((t, op, None))
                if op == "close":
                    L.__exit__(None, None, None)
                else:
                    L.__exit__(RuntimeError, RuntimeError("x"), None)
                abstract[t] = ("idle", {})
            elif op == "read":
                trace.append((t, op, None))
            if why is None:
                for i in range(2):
                    if reuse and ((i == 0 and started1) or (i == 1 and not started1)):
                        continue  # with a reused id only one of the two logical threads is alive at a time
                    sched.current = tids[i]
                    got = L.DEFAULT_SCHEMA
                    if not val_eq(got, spec_read(L, env, abstract[i], "DEFAULT_SCHEMA")):
                        why = "after step %d (%s by thread %d) thread %d reads DEFAULT_SCHEMA differently from the specification" % (step, op, t, i)
                        last_items = trace[-1][2] or []
                        fid = classify({"open": "call", "open_unknown": "call_unknown", "open_unknown_only": "call_unknown"}.get(op, op),
                                       mode, [tuple(x) for x in last_items])
                        if fid is None:
                            # a later symptom of an earlier rejected attempt that left a footprint
                            for (pt, pop, pit) in trace[:-1]:
                                if pop == "open_unknown":
                                    fid = "C15-unknown-key-partial-apply"
                        break
            if why:
                break
        return Verdict(why is None, {"trace": trace, "env": dict(env), "reuse": reuse, "why": why}, fid)

    def replay(self, conc, verdict_ok):
        if conc.get("skipped"):
            return {"real_ok": True, "lifted_matches": True, "unreplayed": True}
        from lx import replay as R

        r = R.run_code(REPLAY_SEQ % {"c": repr(conc)})
        if not r.get("ok"):
            return {"real_ok": False, "lifted_matches": False, "detail": r}
        res = r["result"]
        out = {"real_ok": res["ok"], "lifted_matches": res["ok"] == verdict_ok, "detail": res}
        if not res["ok"]:
            out["finding"] = res.get("finding")
        return out


REPLAY_SEQ = r'''
import os, threading, queue
c = %(c)s
for k in list(os.environ):
    if k.startswith("SQLLINEAGE_"): del os.environ[k]
for k, v in c["env"].items(): os.environ[k] = v
import importlib, sqllineage.config as cm
importlib.reload(cm)
from sqllineage.exceptions import ConfigException
cfg = cm.SQLLineageConfig
class T(threading.Thread):
    def __init__(s):
        super().__init__(daemon=True); s.q = queue.Queue(); s.r = queue.Queue(); s.start()
    def run(s):
        while True:
            f = s.q.get()
            if f is None: return
            try: s.r.put(("ok", f()))
            except BaseException as e: s.r.put(("exc", type(e).__name__))
    def do(s, f):
        s.q.put(f); return s.r.get(timeout=20)
def spec(st):
    return st[1] if st[0] == "inside" else str(os.environ.get("SQLLINEAGE_DEFAULT_SCHEMA", ""))
def open_scope(items):
    cfg(**dict(items)); cfg.__enter__()
if c["reuse"]:
    # the second logical thread is a later OS thread; ids are reused by the OS only by chance, so emulate the
    # reuse faithfully by running both logical threads' operations on one real thread (same id), which is what
    # id reuse means for an object keyed by thread id
    one = T(); ths = [one, one]
else:
    ths = [T(), T()]
abstract = [("idle", None), ("idle", None)]
why, finding, unknown_seen = None, None, False
for step, (t, op, items) in enumerate(c["trace"]):
    mode = abstract[t][0]
    if op in ("open", "open_unknown", "open_unknown_only"):
        items = [tuple(x) for x in items]
        expect = op != "open" or mode == "inside"
        r = ths[t].do(lambda items=items: open_scope(items))
        raised = r[0] == "exc"
        if raised and r[1] != "ConfigException": why = "escaped with " + r[1]
        elif raised != expect: why = "step %%d raised=%%s expected=%%s" %% (step, raised, expect)
        if not raised: abstract[t] = ("inside", dict(items)["DEFAULT_SCHEMA"])
        region = None
        if op == "open_unknown": region = "C15-unknown-key-partial-apply"; unknown_seen = True
        elif mode == "inside": region = "C15-rejected-nested-overwrites-outer"
    elif op in ("close", "close_exc"):
        ths[t].do((lambda: cfg.__exit__(None, None, None)) if op == "close" else (lambda: cfg.__exit__(RuntimeError, RuntimeError("x"), None)))
        abstract[t] = ("idle", None); region = None
    else:
        region = None
    if why is None:
        for i in range(2):
            st1 = any(tt == 1 for tt, _, _ in c["trace"][:step + 1])
            if c["reuse"] and ((i == 0 and st1) or (i == 1 and not st1)): continue
            got = ths[i].do(lambda: cfg.DEFAULT_SCHEMA)
            if got != ("ok", spec(abstract[i])):
                why = "after step %%d thread %%d reads %%r, specification %%r" %% (step, i, got, spec(abstract[i])); break
    if why:
        finding = None
        break
for th in set(ths): th.q.put(None)
result = {"ok": why is None, "why": why, "finding": finding}
'''


class CoerceOb(Obligation):
    def __init__(self, key):
        self.k = key
        self.key = "coerce/%s" % key

    def describe(self):
        return {"key": self.key}

    def body(self):
        sched = Sched()
        sched.current = 7
        L = fresh_loader(sched, {})
        k = self.k
        src = fork_choice("src", 2)  # 0: via scoped override, 1: via environment
        if TYPES[k] is str:
            raw = SymStr.var("raw", 3, "qzQ_ 0")
        else:
            c = fork_choice("rk", 4)
            raw = [True, False, 0, 5][c] if (fork_bool("isobj") and src == 0) else SymStr.const(
                BOOL_TEXTS[fork_choice("rt", len(BOOL_TEXTS))])
        if src == 0:
            with L(**{k: raw}):
                got = getattr(L, k)
        else:
            import sqllineage.config as cfgmod

            cfgmod.os.environ["SQLLINEAGE_" + k] = raw
            got = getattr(L, k)
        want = spec_parse(raw, TYPES[k])
        ok = type(got) is type(want) or (isinstance(got, str) and isinstance(want, str))
        ok = ok and val_eq(got, want)
        return Verdict(ok, {"key": k, "via": ["override", "environment"][src], "raw": raw, "got": got, "want": want})

    def replay(self, conc, verdict_ok):
        from lx import replay as R

        code = ("import os\nc = %r\nimport importlib, sqllineage.config as cm\n"
                "if c['via'] == 'environment': os.environ['SQLLINEAGE_' + c['key']] = c['raw']\n"
                "importlib.reload(cm)\ncfg = cm.SQLLineageConfig\n"
                "if c['via'] == 'override':\n    with cfg(**{c['key']: c['raw']}): got = getattr(cfg, c['key'])\n"
                "else:\n    got = getattr(cfg, c['key'])\n"
                "os.environ.pop('SQLLINEAGE_' + c['key'], None)\n"
                "result = {'ok': got == c['want'] and type(got) is type(c['want']), 'got': got}\n") % (conc,)
        r = R.run_code(code)
        if not r.get("ok"):
            return {"real_ok": False, "lifted_matches": False, "detail": r}
        return {"real_ok": r["result"]["ok"], "lifted_matches": r["result"]["ok"] == verdict_ok, "detail": r["result"]}


def obligations(tier, seed):
    obs = []
    # the acting thread's pre-state: from `pending` the only specified operation is entering the scope
    combos = {"idle": ["call", "call_unknown", "read", "assign"],
              "pending": ["enter"],
              "inside": ["call", "call_unknown", "enter", "exit", "exit_exc", "read", "assign"]}
    for mode, ops in combos.items():
        for op in ops:
            obs.append(StepOb(op, mode))
    n = 3 if tier == "quick" else 4
    for first in ("open", "open_unknown", "open_unknown_only"):
        obs.append(SeqOb(n, first))
    for k in KEYS:
        obs.append(CoerceOb(k))
    return obs
