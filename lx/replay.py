"""
Replay of concrete witnesses on the unmodified library (subprocess workers, /venv/bin/python, no hook).
"""
from __future__ import annotations

import json
import os
import subprocess
import sys

from .engine import HarnessError
from .lifted import norm_anon

HERE = os.path.dirname(os.path.abspath(__file__))
PY = "/venv/bin/python"


class Worker:
    def __init__(self, hashseed=None, env=None):
        e = dict(os.environ)
        e["LX_REPO"] = os.environ.get("LX_REPO", "/repo")
        e.pop("PYTHONPATH", None)
        if hashseed is not None:
            e["PYTHONHASHSEED"] = str(hashseed)
        else:
            e.pop("PYTHONHASHSEED", None)
        for k in list(e):
            if k.startswith("SQLLINEAGE_"):
                e.pop(k)
        if env:
            e.update(env)
        self.p = subprocess.Popen([PY, os.path.join(HERE, "worker.py")], stdin=subprocess.PIPE,
                                  stdout=subprocess.PIPE, stderr=subprocess.DEVNULL, text=True, env=e, cwd="/")
        hello = self.p.stdout.readline()
        if not hello:
            raise HarnessError("replay worker failed to start")
        self.info = json.loads(hello)
        self.calls = 0

    def call(self, req):
        self.calls += 1
        self.p.stdin.write(json.dumps(req) + "\n")
        self.p.stdin.flush()
        line = self.p.stdout.readline()
        if not line:
            raise HarnessError("replay worker died on %s" % (json.dumps(req)[:300],))
        return json.loads(line)

    def close(self):
        try:
            self.p.stdin.close()
            self.p.wait(timeout=5)
        except Exception:
            self.p.kill()


_pool = {}


def worker(hashseed=None) -> Worker:
    w = _pool.get(hashseed)
    if w is None or w.p.poll() is not None:
        w = Worker(hashseed)
        _pool[hashseed] = w
    return w


def close_all():
    for w in _pool.values():
        w.close()
    _pool.clear()


def run_real(sql, dialect="ansi", metadata=None, config=None, env=None, silent_mode=False, cyto=False,
             statements=False, hashseed=None, again=False, read_after_scope=False):
    """run the unmodified library; returns the worker's dict (normalised anonymous subquery names)"""
    r = worker(hashseed).call({"kind": "run", "sql": sql, "dialect": dialect, "metadata": metadata,
                               "config": config, "env": env, "silent_mode": silent_mode, "cyto": cyto,
                               "statements": statements, "again": again, "read_after_scope": read_after_scope})
    if r.get("ok"):
        for k in ("sources", "targets", "intermediates"):
            r[k] = sorted(norm_anon(x) for x in r[k])
        r["pairs"] = sorted([norm_anon(a), norm_anon(b)] for a, b in r["pairs"])
    return r


def run_code(code, hashseed=None):
    return worker(hashseed).call({"kind": "exec", "code": code})


def same_dump(real, lifted_conc, fields=("sources", "targets", "intermediates", "pairs")):
    for k in fields:
        a = real[k]
        b = lifted_conc[k]
        if k == "pairs":
            a = sorted(set(tuple(x) for x in a))
            b = sorted(set(tuple(x) for x in b))
        else:
            a, b = sorted(set(a)), sorted(set(b))
        if a != b:
            return False
    return True
