"""
Tree symbolisation: a statement TEMPLATE is SQL text with placeholder identifiers (zq...).  It is parsed
once, concretely, by the real sqlfluff (through the repository's own parse entry point) under one dialect.
Then every leaf's text is replaced by a SymStr (symbolic where a placeholder occurs, constant elsewhere)
and every inner segment's cached text by the concatenation of its children.  Segment types and shape are
the parser's own; identifier bodies (and, in C07 mode, letter case of keywords/identifiers) are symbolic.
"""
from __future__ import annotations

import re

from .engine import Ch, HarnessError, SymStr, Unsupported, eng

PLACEHOLDER = re.compile(r"(zq[a-z0-9]+)", re.I)

# body alphabet: no keyword of any installed dialect can be spelled over it (checked by keyword_guard)
BODY_FIRST = "qzjQZJ"
BODY_REST = "qzjQZJ_07"
BODY_LOWER_FIRST = "qzj"
BODY_LOWER_REST = "qzj_07"


def keyword_guard():
    """no reserved/unreserved keyword of any sqlfluff dialect is spelled only with body letters (len<=4)"""
    from sqlfluff.core import dialect_readout, dialect_selector

    letters = set(BODY_REST.lower())
    bad = []
    for d in dialect_readout():
        dia = dialect_selector(d.label)
        for setname in ("reserved_keywords", "unreserved_keywords", "bare_functions"):
            try:
                kws = dia.sets(setname)
            except Exception:
                continue
            for kw in kws:
                k = kw.lower()
                if 0 < len(k) <= 4 and set(k) <= letters:
                    bad.append((d.label, kw))
    if bad:
        raise HarnessError("identifier alphabet can spell keywords: %r" % bad[:5])
    return True


class Names:
    """the free names of one harness instance: slot -> SymStr (created lazily, deterministic z3 names)"""

    def __init__(self, lengths=None, default_len=2, first=BODY_FIRST, rest=BODY_REST, prefix="n"):
        self.lengths = dict(lengths or {})
        self.default_len = default_len
        self.first, self.rest = first, rest
        self.prefix = prefix
        self.vals = {}

    def __getitem__(self, slot):
        slot = slot.lower()
        v = self.vals.get(slot)
        if v is None:
            n = self.lengths.get(slot, self.default_len)
            v = SymStr.var("%s_%s" % (self.prefix, slot), n, self.rest, self.first)
            self.vals[slot] = v
        return v

    def set(self, slot, value):
        self.vals[slot.lower()] = SymStr.const(value)

    def __contains__(self, slot):
        return True

    def items(self):
        return self.vals.items()

    def concretise(self, model):
        return {k: v.value(model) for k, v in self.vals.items()}


def default_resolver(names):
    def resolve(slot, occurrence, leaf, literal):
        return names[slot]
    return resolve


def case_var(text, tag):
    """every ASCII letter of `text` gets a free case (C07)"""
    e = eng()
    cs = []
    for i, c in enumerate(text):
        if c.isascii() and c.isalpha():
            cs.append(e.char_var("%s#%d" % (tag, i), [ord(c.lower()), ord(c.upper())]))
        else:
            cs.append(Ch(ord(c)))
    return SymStr(cs)


def case_of(sym: SymStr, tag):
    """apply a free per-character case to a (lower-case alphabet) symbolic string: c -> c or upper(c)"""
    import z3

    e = eng()
    out = []
    for i, c in enumerate(sym.cs):
        al = c.al if c.al is not None else None
        if c.conc():
            ch = chr(c.t)
            if ch.isascii() and ch.isalpha():
                out.append(e.char_var("%s#%d" % (tag, i), [ord(ch.lower()), ord(ch.upper())]))
            else:
                out.append(c)
            continue
        if al is None or not any(97 <= k <= 122 for k in al):
            out.append(c)
            continue
        b = z3.Bool("%s#b%d" % (tag, i))
        nal = frozenset(al) | frozenset(k - 32 for k in al if 97 <= k <= 122)
        out.append(Ch(z3.If(z3.And(b, z3.UGE(c.t, 97), z3.ULE(c.t, 122)), c.t - 32, c.t), nal))
    return SymStr(out)


class ParsedStatement:
    """one parsed statement tree of a template under one dialect (re-symbolised on every path)"""

    def __init__(self, sql, dialect, seg):
        self.sql = sql
        self.dialect = dialect
        self.seg = seg
        self.slots = []          # placeholder slots in order of first appearance
        for leaf in self._leaves(seg):
            for m in PLACEHOLDER.finditer(leaf.__dict__.get("_raw", "")):
                s = m.group(1).lower()
                if s not in self.slots:
                    self.slots.append(s)
        self._orig = [(leaf, str(leaf.__dict__["_raw"])) for leaf in self._leaves(seg)]
        # sqlfluff (>= 3.1) also caches the leaf's NORMALISED text (quotes removed, escapes undone) for raw_normalized():
        # where it is the raw text minus fixed delimiters, it is re-derived from the symbolic raw text; otherwise poisoned
        self._orig_value = {}
        for leaf, raw in self._orig:
            v = leaf.__dict__.get("_raw_value")
            if isinstance(v, str):
                i = raw.find(v)
                self._orig_value[id(leaf)] = (v, (i, len(raw) - i - len(v)) if (i >= 0 and v) else (None if v else (0, len(raw))))
        self._const_cache = {}

    @staticmethod
    def _leaves(seg):
        if not seg.segments:
            yield seg
        else:
            for c in seg.segments:
                yield from ParsedStatement._leaves(c)

    def symbolise(self, resolve, anycase_tag=None):
        """resolve(slot, occurrence_index, leaf, literal_text) -> SymStr for each placeholder occurrence"""
        occ = {}
        orig = dict((id(l), r) for l, r in self._orig)
        counter = [0]

        def leaf_text(leaf):
            raw = orig[id(leaf)]
            parts = PLACEHOLDER.split(raw)
            if len(parts) == 1:
                if anycase_tag is not None and (leaf.is_type("keyword") or leaf.is_type("naked_identifier")
                                                or leaf.is_type("function_name_identifier")
                                                or leaf.is_type("data_type_identifier")):
                    counter[0] += 1
                    return case_var(raw, "%s_k%d" % (anycase_tag, counter[0]))
                return SymStr.const(raw)
            cs = []
            for i, p in enumerate(parts):
                if i % 2 == 0:
                    cs += SymStr.const(p).cs
                else:
                    slot = p.lower()
                    k = occ.get(slot, 0)
                    occ[slot] = k + 1
                    cs += SymStr.const(resolve(slot, k, leaf, p)).cs
            return SymStr(cs)

        consts = self._const_cache

        def rec(seg):
            """-> (text, upper-cased text); upper of an inner segment is the concatenation of its children's"""
            if not seg.segments:
                hit = consts.get(id(seg)) if anycase_tag is None else None
                if hit is None:
                    s = leaf_text(seg)
                    su = s.upper()
                    if anycase_tag is None and s.concrete() and not PLACEHOLDER.search(orig[id(seg)]):
                        consts[id(seg)] = (s, su)
                else:
                    s, su = hit
                seg.__dict__["_raw"] = s
                seg.__dict__["_raw_upper"] = su
                seg.__dict__.pop("raw_normalized", None)
                if id(seg) in self._orig_value:
                    v0, cut = self._orig_value[id(seg)]
                    if s.concrete() and not PLACEHOLDER.search(orig[id(seg)]):
                        seg.__dict__["_raw_value"] = v0        # untouched leaf: sqlfluff's own value stands
                    elif cut is None:
                        seg.__dict__["_raw_value"] = _Poison("normalised text of %r is not its raw text minus delimiters" % orig[id(seg)])
                    else:
                        seg.__dict__["_raw_value"] = SymStr(s.cs[cut[0]:len(s.cs) - cut[1]])
                return s, su
            cs, us = [], []
            for c in seg.segments:
                a, b = rec(c)
                cs += a.cs
                us += b.cs
            s, su = SymStr(cs), SymStr(us)
            seg._recalculate_caches()
            seg.__dict__["raw"] = s
            seg.__dict__["raw_upper"] = su
            return s, su

        return rec(self.seg)[0]

    def render(self, concrete_names, resolve_text=None):
        """concrete SQL text of this statement for a naming (for replay on the unmodified library)"""
        occ = {}

        def sub(m):
            slot = m.group(1).lower()
            k = occ.get(slot, 0)
            occ[slot] = k + 1
            if resolve_text is not None:
                return resolve_text(slot, k, m.group(1))
            return concrete_names[slot]

        return PLACEHOLDER.sub(sub, self.sql)


class _Poison:
    """stands in for a cached text that cannot be re-derived symbolically: any use is refused"""

    def __init__(self, why):
        self._why = why

    def __getattr__(self, k):
        raise Unsupported("sqlfluff normalised leaf text: " + self._why)

    def __str__(self):
        raise Unsupported("sqlfluff normalised leaf text: " + self._why)

    __repr__ = __add__ = __radd__ = __eq__ = __hash__ = __len__ = __iter__ = __contains__ = __str__


_PARSE_CACHE = {}


def parse_statements(sql, dialect, fresh=False, file_path="."):
    """parse with the repository's own entry point (real sqlfluff); returns list[ParsedStatement]"""
    from sqllineage.core.parser.sqlfluff import analyzer as an_mod

    key = (sql, dialect)
    if not fresh and key in _PARSE_CACHE:
        return _PARSE_CACHE[key]
    real = getattr(an_mod.SqlFluffLineageAnalyzer, "__lx_real_list__", None) or \
        an_mod.SqlFluffLineageAnalyzer._list_specific_statement_segment
    an = an_mod.SqlFluffLineageAnalyzer(file_path, dialect)
    import warnings

    with warnings.catch_warnings():
        warnings.simplefilter("ignore")
        segs = real(an, sql)
    out = [ParsedStatement(str(s.raw), dialect, s) for s in segs]
    if len(out) == 1:
        out[0].sql = sql if sql.strip().rstrip(";").strip() == str(segs[0].raw).strip() else str(segs[0].raw)
    if not fresh:
        _PARSE_CACHE[key] = out
    return out


def parse_one(sql, dialect, fresh=False):
    ps = parse_statements(sql, dialect, fresh=fresh)
    if len(ps) != 1:
        raise HarnessError("template does not parse to exactly one statement under %s: %r" % (dialect, sql))
    return ps[0]
