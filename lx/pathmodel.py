"""
LxPath: a model of pathlib.PurePosixPath / Path (POSIX, no symlinks) over SymStr segments, plus the os.path
functions a path guard may use.  Segment boundaries are concrete per path (splitting on '/' forks through
the engine); segment contents are symbolic.  The model is checked against the real pathlib/os.path on an
exhaustive concrete corpus at start-up (selftest) and on every replayed witness.
"""
from __future__ import annotations

import os as _os
import pathlib as _pl

from .engine import SymStr, Unsupported, eng

CWD = ["var", "tmp", "lxc17", "d1", "d2", "d3", "d4", "w"]   # the model's current directory (replay chdir()s here)
EVENTS = []   # (kind, LxPath) recorded I/O
KNOWN_DIRS = []   # LxPaths that certainly are directories (the working directory, the configured root): every
                  # ancestor-or-self of one of them cannot be opened as a file


def S(x):
    return SymStr.const(x)


def _seg_is(seg, text):
    r = (S(seg) == S(text))
    return bool(r)


def split_path(s):
    """-> (anchor, [segments]) following PurePosixPath parsing: '' and '.' segments dropped, '..' kept,
    exactly two leading slashes are kept as the anchor '//' """
    s = S(s)
    lead = 0
    while lead < len(s.cs) and bool(s[lead] == "/"):
        lead += 1
    anchor = "" if lead == 0 else ("//" if lead == 2 else "/")
    segs = []
    for p in s[lead:].split("/") if len(s.cs) > lead else []:
        if len(p) == 0 or _seg_is(p, "."):
            continue
        segs.append(p)
    return anchor, segs


class LxPath:
    def __init__(self, *args):
        anchor, segs = "", []
        for a in args:
            if isinstance(a, LxPath):
                an, sg = a.anchor, list(a.segs)
            elif isinstance(a, str):
                an, sg = split_path(a)
            elif isinstance(a, _pl.PurePath):
                an, sg = split_path(str(a))
            else:
                raise TypeError("expected str, bytes or os.PathLike object, not %s" % type(a).__name__)
            if an:
                anchor, segs = an, sg
            else:
                segs = segs + sg
        self.anchor, self.segs = anchor, segs

    # ---- pure operations -------------------------------------------------------------
    def _mk(self, anchor, segs):
        p = LxPath()
        p.anchor, p.segs = anchor, list(segs)
        return p

    def __str__(self):
        if not self.segs:
            return S(self.anchor or ".")
        return S(self.anchor) + S("/").join(self.segs)

    def __fspath__(self):
        s = str(self)
        if isinstance(s, SymStr) and not s.concrete():
            raise Unsupported("os.fspath of a symbolic path reached a C consumer")
        return s.plain() if isinstance(s, SymStr) else s

    def __repr__(self):
        return "LxPath(%r)" % (str(self),)

    def __eq__(self, o):
        if not isinstance(o, LxPath):
            return NotImplemented
        if self.anchor != o.anchor or len(self.segs) != len(o.segs):
            return False
        return all(bool(a == b) for a, b in zip(self.segs, o.segs))

    def __hash__(self):
        return 0

    def __lt__(self, o):
        return bool(str(self) < str(o))

    def is_absolute(self):
        return bool(self.anchor)

    def absolute(self):
        if self.anchor:
            return self
        return self._mk("/", [S(c) for c in CWD] + self.segs)

    def joinpath(self, *others):
        return LxPath(self, *others)

    def __truediv__(self, o):
        return LxPath(self, o)

    def __rtruediv__(self, o):
        return LxPath(o, self)

    @property
    def parent(self):
        if not self.segs:
            return self
        return self._mk(self.anchor, self.segs[:-1])

    @property
    def parents(self):
        out, p = [], self
        while p.segs:
            p = p.parent
            out.append(p)
        return out

    @property
    def name(self):
        return self.segs[-1] if self.segs else S("")

    @property
    def parts(self):
        return tuple(([S(self.anchor)] if self.anchor else []) + self.segs)

    @property
    def suffix(self):
        n = self.name
        if "." in n[1:]:
            return S(".") + n.rsplit(".", 1)[1]
        return S("")

    @property
    def stem(self):
        raise Unsupported("LxPath.stem")

    def expanduser(self):
        return LxPath(OsPathShim().expanduser(str(self)))

    def resolve(self, strict=False):
        """no symlinks: make absolute and fold '..' lexically ('/..' is '/')"""
        p = self.absolute()
        out = []
        for s in p.segs:
            if _seg_is(s, ".."):
                if out:
                    out.pop()
            else:
                out.append(s)
        # realpath collapses a leading '//' to '/' (absolute() / abspath / normpath keep it)
        return self._mk("/" if p.anchor else "", out)

    def is_relative_to(self, other, *more):
        other = LxPath(other, *more)
        if self.anchor != other.anchor or len(other.segs) > len(self.segs):
            return False
        return all(bool(a == b) for a, b in zip(self.segs, other.segs))

    def relative_to(self, other, *more):
        other = LxPath(other, *more)
        if not self.is_relative_to(other):
            raise ValueError("%r is not in the subpath of %r" % (str(self), str(other)))
        return self._mk("", self.segs[len(other.segs):])

    def with_name(self, name):
        return self._mk(self.anchor, self.segs[:-1] + [S(name)])

    # ---- I/O: recorded, answered by the worst-case environment ("everything exists") ----
    def exists(self):
        EVENTS.append(("exists", self))
        return True

    def is_dir(self):
        EVENTS.append(("is_dir", self))
        return True

    def is_file(self):
        EVENTS.append(("is_file", self))
        return True

    def iterdir(self):
        EVENTS.append(("iterdir", self))
        return iter([LxPath(self, "entry.sql")])

    def glob(self, pat):
        EVENTS.append(("iterdir", self))
        return iter([])

    rglob = glob

    def open(self, *a, **k):
        return lx_open(self, *a, **k)

    def read_text(self, *a, **k):
        EVENTS.append(("open", self))
        return "select 1"

    def read_bytes(self):
        EVENTS.append(("open", self))
        return b"select 1"

    def stat(self):
        raise Unsupported("LxPath.stat")

    def samefile(self, other):
        return self.resolve() == LxPath(other).resolve()


class _File:
    def __init__(self, binary):
        self.binary = binary

    def read(self, *a):
        return b"FILE-CONTENT" if self.binary else "select 1 from file_content"

    def __enter__(self):
        return self

    def __exit__(self, *a):
        return False

    def close(self):
        pass


def lx_open(path, mode="r", *a, **k):
    p = path if isinstance(path, LxPath) else LxPath(path)
    if any(c in mode for c in "wax+"):
        raise Unsupported("open for writing")
    rp = p.resolve()
    for d in KNOWN_DIRS:
        if d.resolve().is_relative_to(rp):
            raise IsADirectoryError(21, "Is a directory")
    EVENTS.append(("open", p))
    return _File("b" in mode)


def is_inside(p: LxPath, root: LxPath):
    """after reference resolution, p is root or lies below it"""
    return p.resolve().is_relative_to(root.resolve())


# ---- os / os.path shim ---------------------------------------------------------------------

def home():
    """the model's HOME: a directory of the scratch tree outside every root the checks configure"""
    return "/" + "/".join(CWD[:3]) + "/home"


def _conc(*xs):
    return all((not isinstance(x, LxPath)) and (not isinstance(x, SymStr) or x.concrete()) for x in xs)


def _pl_(x):
    return x.plain() if isinstance(x, SymStr) else x


class OsPathShim:
    sep = "/"

    def __getattr__(self, k):
        real = getattr(_os.path, k)
        if callable(real):
            def f(*a, **kw):
                if _conc(*a):
                    return real(*[_pl_(x) for x in a], **kw)
                raise Unsupported("os.path.%s on a symbolic path" % k)
            return f
        return real

    def expanduser(self, p):
        """'~' or '~/rest' -> HOME + rest; '~name' stays (the model has no other users); anything else unchanged"""
        if isinstance(p, LxPath):
            p = str(p)
        s = S(p)
        if len(s) == 0 or not bool(s[0] == "~"):
            return p
        if len(s) > 1 and not bool(s[1] == "/"):
            return p
        return S(home()) + s[1:]

    def join(self, *a):
        if _conc(*a):
            return _os.path.join(*[_pl_(x) for x in a])
        return str(LxPath(*a)) if False else _join_str(a)

    def abspath(self, p):
        if _conc(p):
            return _os.path.abspath(_pl_(p))
        return str(_normpath(LxPath(p).absolute()))

    def normpath(self, p):
        if _conc(p):
            return _os.path.normpath(_pl_(p))
        return str(_normpath(LxPath(p)))

    def realpath(self, p, **kw):
        if _conc(p):
            return _os.path.realpath(_pl_(p))
        return str(LxPath(p).resolve())

    def isabs(self, p):
        if _conc(p):
            return _os.path.isabs(_pl_(p))
        return bool(S(p).startswith("/"))

    def dirname(self, p):
        if _conc(p):
            return _os.path.dirname(_pl_(p))
        s = S(p)
        i = s.rfind("/") + 1
        head = s[:i]
        if len(head) and not all(_seg_is(c, "/") for c in head):
            head = head.rstrip("/")
        return head

    def basename(self, p):
        if _conc(p):
            return _os.path.basename(_pl_(p))
        return S(p).rsplit("/", 1)[-1]

    def commonpath(self, paths):
        paths = list(paths)
        if _conc(*paths):
            return _os.path.commonpath([_pl_(x) for x in paths])
        ps = [LxPath(x) for x in paths]
        if len(set(bool(p.anchor) for p in ps)) != 1:
            raise ValueError("Can't mix absolute and relative paths")
        segs = [p.segs for p in ps]
        out = []
        for col in zip(*segs):
            if all(bool(c == col[0]) for c in col[1:]):
                out.append(col[0])
            else:
                break
        r = LxPath()
        r.anchor, r.segs = ("/" if ps[0].anchor else ""), out
        return str(r) if (out or r.anchor) else S("")

    def commonprefix(self, paths):
        paths = [S(str(x)) for x in paths]
        if not paths:
            return S("")
        n = 0
        while all(n < len(p) for p in paths) and all(bool(p[n] == paths[0][n]) for p in paths[1:]):
            n += 1
        return paths[0][:n]

    def exists(self, p):
        return LxPath(p).exists()

    def isdir(self, p):
        return LxPath(p).is_dir()

    def isfile(self, p):
        return LxPath(p).is_file()


def _join_str(args):
    """os.path.join on strings (keeps the text, unlike pathlib)"""
    out = S("")
    for a in args:
        a = S(str(a)) if isinstance(a, LxPath) else S(a)
        if bool(a.startswith("/")):
            out = a
        elif len(out) == 0 or bool(out.endswith("/")):
            out = out + a
        else:
            out = out + "/" + a
    return out


def _normpath(p: LxPath):
    """os.path.normpath: lexical folding of '..' without making absolute"""
    out = []
    for s in p.segs:
        if _seg_is(s, ".."):
            if out and not _seg_is(out[-1], ".."):
                out.pop()
            elif not p.anchor:
                out.append(s)
        else:
            out.append(s)
    r = LxPath()
    r.anchor, r.segs = p.anchor, out
    return r


class OsShim:
    def __init__(self):
        self.path = OsPathShim()
        self.sep = "/"

    def __getattr__(self, k):
        return getattr(_os, k)

    def getcwd(self):
        return "/" + "/".join(CWD)

    def fspath(self, p):
        return str(p) if isinstance(p, LxPath) else p

    def listdir(self, p="."):
        EVENTS.append(("iterdir", LxPath(p)))
        return ["entry.sql"]

    def scandir(self, p="."):
        raise Unsupported("os.scandir")

    def walk(self, p, **k):
        EVENTS.append(("iterdir", LxPath(p)))
        return iter([])


def selftest():
    """compare the model with real pathlib/os.path on an exhaustive concrete corpus (no engine needed: all concrete)"""
    import itertools

    from .engine import Engine, HarnessError

    cwd = "/" + "/".join(CWD)
    segs = ["", ".", "..", "q", "qz"]
    n = 0
    bad = []

    def run():
        nonlocal n
        for k in range(0, 4):
            for combo in itertools.product(segs, repeat=k):
                for lead in ("", "/", "//", "///"):
                    for trail in ("", "/"):
                        text = lead + "/".join(combo) + trail
                        if text == "":
                            continue
                        real = _pl.PurePosixPath(text)
                        m = LxPath(text)
                        n += 1
                        checks = [
                            ("str", str(real), str(m)),
                            ("name", real.name, str(m.name)),
                            ("parent", str(real.parent), str(m.parent)),
                            ("abs", str(real if real.is_absolute() else _pl.PurePosixPath(cwd) / real), str(m.absolute())),
                            ("join", str(_pl.PurePosixPath("/s/t") / real), str(LxPath("/s/t") / text)),
                            ("join2", str(_pl.PurePosixPath("/s/t").joinpath(_pl.PurePosixPath(text.strip("/")))) if text.strip("/") else None,
                             str(LxPath("/s/t").joinpath(LxPath(text.strip("/")))) if text.strip("/") else None),
                            ("normpath", _os.path.normpath(text), OsPathShim().normpath(S(text)) if False else str(_normpath(LxPath(text))) if not text.startswith("//") or text.startswith("///") else None),
                            ("resolve", _os.path.realpath(str(real if real.is_absolute() else _pl.PurePosixPath(cwd) / real)), str(m.resolve())),
                            ("realpath", _os.path.realpath(_os.path.join(cwd, text)), str(OsPathShim.realpath(OsPathShim(), _Sym(text)))),
                            ("abspath", _os.path.abspath(_os.path.join(cwd, text)), str(OsPathShim.abspath(OsPathShim(), _Sym(text)))),
                            ("rel", real.is_relative_to("/var/tmp") if real.is_absolute() else None,
                             m.is_relative_to("/var/tmp") if real.is_absolute() else None),
                            ("dirname", _os.path.dirname(text), str(OsPathShim.dirname(OsPathShim(), _Sym(text)))),
                            ("basename", _os.path.basename(text), str(OsPathShim.basename(OsPathShim(), _Sym(text)))),
                        ]
                        for name, a, b in checks:
                            if name == "normpath" and b is None:
                                continue
                            if a is None and b is None:
                                continue
                            if str(a) != str(b):
                                bad.append((text, name, str(a), str(b)))
        return True

    e = Engine()
    e.explore(run)
    if bad:
        raise HarnessError("LxPath model disagrees with pathlib/os.path: %r" % (bad[:5],))
    return n


class _Sym(SymStr):
    """a concrete SymStr that pretends not to be concrete, to drive the model branch of the shims in the selftest"""

    def __new__(cls, text):
        self = SymStr.__new__(cls, SymStr.const(text).cs)
        return self

    def concrete(self):
        return False
