"""
Common driver for all property checks.

A check module defines
    PID = "Cxx"
    def obligations(tier, seed) -> list[Obligation]      (deterministic, cheap: no parsing, no z3)
Each Obligation is one harness instance (template x dialect x mode); it is explored by the LX engine in a
worker process, every counterexample is replayed on the unmodified library before it is reported, and a
sample of passing paths is validated against the unmodified library too (lifting fidelity).

Exit codes: 0 = property held on everything explored (known findings are printed as KNOWN-FINDING lines)
            1 = a replayed violation outside the known findings (VIOLATION line printed)
            3 = harness error / inconclusive (never a verdict)
"""
from __future__ import annotations

import importlib
import json
import multiprocessing as mp
import os
import random
import sys
import time
import traceback

VERIF = os.path.dirname(os.path.dirname(os.path.abspath(__file__)))
EXIT_OK, EXIT_VIOLATION, EXIT_HARNESS = 0, 1, 3


class Verdict:
    """what a harness body returns for one path"""

    __slots__ = ("ok", "data", "finding", "nontrivial")

    def __init__(self, ok, data=None, finding=None, nontrivial=True):
        self.ok = ok              # True: assertion holds on this path
        self.data = data          # anything the obligation needs to concretise / replay
        self.finding = finding    # id of the known finding whose region this path lies in (or None)
        self.nontrivial = nontrivial


class Obligation:
    key = "?"
    budget_s = 600
    max_paths = 20000
    validate_every = 0  # 0: per tier default

    def describe(self):
        return {"key": self.key}

    def prepare(self):
        """parse templates etc. (in the worker, outside the engine)"""

    def body(self):
        raise NotImplementedError

    def concretise(self, verdict, model):
        """-> json-able dict describing the concrete case of this path"""
        from .engine import sym_value

        return sym_value(verdict.data, model) if verdict.data is not None else {}

    def replay(self, conc, verdict_ok):
        """run the concrete case on the unmodified library.
        -> dict(real_ok: bool, lifted_matches: bool, detail: ..., finding: id|None)"""
        return {"real_ok": verdict_ok, "lifted_matches": True, "detail": "no replay defined", "unreplayed": True}

    twin_cap = 6   # the twin is existential: explore until one path reports the perturbation, at most this many paths

    def twin(self):
        """sensitivity twin: the harness body runs with the implementation's first observation perturbed the way a wrong
        implementation would be (lx.lifted._perturb, or a class-specific perturbation reading lx.lifted.TWIN).
        -> True: this path's assertion reported it; False: it did not; None: nothing was perturbed on this path"""
        from . import lifted

        lifted.TWIN["on"], lifted.TWIN["n"], lifted.TWIN["armed"] = True, 0, True
        try:
            v = self.body()
        finally:
            lifted.TWIN["on"] = False
        if not lifted.TWIN["n"]:
            return None
        return not v.ok


# ---------------------------------------------------------------------------------------------
# worker side
# ---------------------------------------------------------------------------------------------

_W = {}


def _worker_init(modname, tier, seed, c11=False):
    os.environ.setdefault("PYTHONHASHSEED", "0")
    sys.setrecursionlimit(10000)
    import warnings

    warnings.simplefilter("ignore")
    from . import hook

    hook.install()
    mod = importlib.import_module(modname)
    _W["mod"] = mod
    _W["obs"] = {o.key: o for o in mod.obligations(tier, seed)}
    _W["tier"], _W["seed"] = tier, seed
    from . import engine as _E

    _E.CROSS["every"] = 25 if tier == "thorough" else 100
    _warm()


def _warm():
    """networkx compiles some decorated functions with exec on first use: call them concretely first"""
    try:
        from sqllineage.runner import LineageRunner

        lr = LineageRunner("insert into a select b.x from b join c on b.i=c.i; alter table a rename to d; drop table e")
        lr.source_tables, lr.get_column_lineage(), lr.to_cytoscape(), lr.to_cytoscape("column"), str(lr)
    except Exception:
        pass


def _run_one(key):
    from . import hook
    from .engine import Engine, HarnessError

    ob = _W["obs"][key]
    tier, seed = _W["tier"], _W["seed"]
    t0 = time.time()
    out = {"key": key, "describe": ob.describe(), "status": "holds", "paths": 0, "decisions": 0, "queries": 0,
           "solver_s": 0.0, "sat": 0, "unsat": 0, "validated": 0, "violations": [], "known": [],
           "inconclusive": [], "samples": [], "nontrivial": 0, "twin": None, "error": None}
    try:
        try:
            ob.prepare()
        except Exception as e:
            # an additional-dialect instance whose template that dialect's grammar does not accept (e.g. NATURAL JOIN under
            # tsql): nothing to decide; the ansi instance of the same template is unaffected
            if type(e).__name__ == "InvalidSyntaxException" and getattr(ob, "dialect", "ansi") not in ("ansi", "non-validating"):
                out["skipped"] = "template not accepted under dialect %s" % ob.dialect
                out["samples"] = [{"note": out["skipped"]}]
                out["wall_s"] = round(time.time() - t0, 2)
                out["covered"], out["cross_checked"] = [], 0
                return out
            raise
        budget = ob.budget_s * (2.5 if tier == "thorough" else 1)   # thorough instances carry more free names
        eng = Engine(max_paths=ob.max_paths, deadline=t0 + budget, label=key)
        results = eng.explore(ob.body)
        st = eng.stats
        out.update(paths=st["paths"], decisions=st["decisions"], queries=st["queries"], solver_s=round(st["solver_s"], 3),
                   sat=st["sat"], unsat=st["unsat"])
        rnd = random.Random("%s/%s" % (seed, key))
        ok_paths = [r for r in results if r.status == "ok" and r.value.ok]
        bad_paths = [r for r in results if r.status == "ok" and not r.value.ok]
        for r in results:
            if r.status != "ok":
                out["inconclusive"].append(r.info)
        out["nontrivial"] = sum(1 for r in results if r.status == "ok" and r.value.nontrivial)
        # counterexamples: replay every one (cap per finding)
        per_finding = {}
        for r in bad_paths:
            if out["status"] == "harness_error":
                break
            fid = r.value.finding
            if fid is not None and per_finding.get(fid, 0) >= 2:
                per_finding[fid] += 1
                continue
            conc = ob.concretise(r.value, r.model)
            rp = ob.replay(conc, False)
            out["validated"] += 0 if rp.get("unreplayed") else 1
            if rp.get("unreplayed"):
                out["status"] = "harness_error"
                out["error"] = "counterexample could not be replayed (no replay defined): %r" % (conc,)
                break
            if rp["real_ok"]:
                # not reproduced on the real library: the encoding or a stub is wrong
                out["status"] = "harness_error"
                out["error"] = "counterexample does not reproduce on the unmodified library: %s" % json.dumps(
                    {"case": conc, "detail": rp.get("detail")}, default=str)[:1500]
                break
            rfid = rp.get("finding", fid)
            if fid is not None and rfid == fid:
                per_finding[fid] = per_finding.get(fid, 0) + 1
                if per_finding[fid] == 1:
                    out["known"].append({"finding": fid, "case": conc, "detail": rp.get("detail")})
            else:
                out["violations"].append({"case": conc, "detail": rp.get("detail"), "lifted_matches": rp["lifted_matches"]})
                if len(out["violations"]) >= 3:
                    break
        # validate a sample of passing paths against the unmodified library (quick: 3 per obligation; thorough: up to 150)
        # thorough: every passing path is replayed up to 150 per obligation, beyond that an even stride over the paths
        every = ob.validate_every or (max(1, -(-len(ok_paths) // 150)) if tier == "thorough" else 0)
        if every:
            sample = ok_paths[::every]
        else:
            k = min(len(ok_paths), 3)
            sample = rnd.sample(ok_paths, k) if k else []
        for r in sample:
            if out["violations"] or out["status"] == "harness_error":
                # a confirmed counterexample is definitive; a fidelity mismatch on a passing witness must not mask it
                break
            conc = ob.concretise(r.value, r.model)
            rp = ob.replay(conc, True)
            if rp.get("unreplayed"):
                continue
            out["validated"] += 1
            if len(out["samples"]) < 2:
                out["samples"].append({"case": conc, "verdict": "holds"})
            if not rp["lifted_matches"]:
                out["status"] = "harness_error"
                out["error"] = "lifted prediction differs from the unmodified library on a passing witness: %s" % json.dumps(
                    {"case": conc, "detail": rp.get("detail")}, default=str)[:1500]
                break
            if not rp["real_ok"]:
                # the lifting says fine, reality says broken, and they agree on outputs: oracle mismatch
                out["status"] = "harness_error"
                out["error"] = "replay oracle disagrees with lifted oracle: %s" % json.dumps(conc, default=str)[:800]
                break
        for fid, n in per_finding.items():
            for k in out["known"]:
                if k["finding"] == fid:
                    k["paths"] = n
        if out["status"] != "harness_error":
            if out["violations"]:
                out["status"] = "violation"
            elif out["inconclusive"]:
                out["status"] = "inconclusive"
            elif not results:
                out["status"] = "harness_error"
                out["error"] = "no feasible path (vacuous harness)"
        # vacuity guards.  (1) reachability: at least one path must have reached the property assertion with a result.
        # (2) sensitivity twin: with the implementation's observation perturbed, some path must come back "violated".
        if out["status"] == "holds" and results and not out["nontrivial"] and not getattr(ob, "vacuous_ok", False):
            out["status"] = "harness_error"
            out["error"] = "no path reached the property assertion (vacuous harness)"
        if out["status"] == "holds" and os.environ.get("LX_TWIN", "1") != "0":
            eng2 = Engine(max_paths=8 * ob.twin_cap + 1, deadline=time.time() + min(120, ob.budget_s), label=key + "/twin")
            seen = {"n": 0, "applied": 0}

            def stop(r, seen=seen):
                # paths on which nothing was perturbed (the harness left the comparison out there) do not count towards the cap
                seen["n"] += 1
                seen["applied"] += 1 if (r.status == "ok" and r.value is not None) else 0
                return (r.status == "ok" and r.value is True) or seen["applied"] >= ob.twin_cap or seen["n"] >= 8 * ob.twin_cap

            try:
                res2 = eng2.explore(ob.twin, stop=stop)
            except HarnessError as e:
                res2 = []
                out["twin"] = "error: %s" % (e,)
            applied = [r for r in res2 if r.status == "ok" and r.value is not None]
            if any(r.value is True for r in applied):
                out["twin"] = "reported"
            elif applied:
                out["twin"] = "missed"
                out["status"] = "harness_error"
                out["error"] = "sensitivity twin: a perturbed observation was not reported on any of %d path(s): the " \
                               "assertion of this harness instance is vacuous" % len(applied)
            elif out["twin"] is None:
                out["twin"] = "n/a"
            out["queries"] += eng2.stats["queries"]
            out["sat"] += eng2.stats["sat"]
            out["unsat"] += eng2.stats["unsat"]
            out["solver_s"] = round(out["solver_s"] + eng2.stats["solver_s"], 3)
        if not out["samples"] and results:
            r = results[0]
            if r.status == "ok":
                out["samples"].append({"case": ob.concretise(r.value, r.model), "verdict": "holds" if r.value.ok else "fails"})
    except HarnessError as e:
        out["status"] = "harness_error"
        out["error"] = "HarnessError: %s" % (e,)
    except BaseException as e:  # noqa
        out["status"] = "harness_error"
        try:
            out["error"] = "%s: %s\n%s" % (type(e).__name__, e, traceback.format_exc()[-2500:])
        except BaseException:  # noqa  (the message may hold a symbolic string that cannot be formatted)
            tb = e.__traceback__
            frames = []
            while tb is not None:
                frames.append("%s:%d" % (tb.tb_frame.f_code.co_filename, tb.tb_lineno))
                tb = tb.tb_next
            out["error"] = "%s (message not printable) at %s" % (type(e).__name__, " <- ".join(frames[-6:]))
    out["wall_s"] = round(time.time() - t0, 2)
    out["covered"] = sorted(hook.COVERED)
    from . import engine as _E

    out["cross_checked"] = _E.CROSS["checked"]
    _E.CROSS["checked"] = 0
    return out


# ---------------------------------------------------------------------------------------------
# driver side
# ---------------------------------------------------------------------------------------------

def load_known_findings():
    p = os.path.join(VERIF, "known_findings.json")
    if not os.path.exists(p):
        return []
    with open(p) as f:
        return json.load(f)["findings"]


def run_check(modname, tier, seed, jobs=None, only=None, verbose=False):
    t0 = time.time()
    mod = importlib.import_module(modname)
    pid = mod.PID
    obs = mod.obligations(tier, seed)
    if only:
        obs = [o for o in obs if any(s in o.key for s in only)]
    keys = [o.key for o in obs]
    if len(set(keys)) != len(keys):
        raise SystemExit("duplicate obligation keys in %s" % modname)
    import glob

    for f in glob.glob(os.path.join(VERIF, "replays", pid + "_*.json")):
        os.remove(f)
    jobs = jobs or min(16, os.cpu_count() or 4, max(1, len(keys)))
    results = []
    ctx = mp.get_context("spawn")
    pool = ctx.Pool(jobs, initializer=_worker_init, initargs=(modname, tier, seed))
    try:
        for r in pool.imap_unordered(_run_one, keys, chunksize=1):
            results.append(r)
            if verbose:
                print("  [%s] %-9s paths=%d q=%d solver=%.1fs wall=%.1fs %s" % (
                    r["key"], r["status"], r["paths"], r["queries"], r["solver_s"], r["wall_s"],
                    ("twin=%s " % r.get("twin")) + (r["error"] or "")[:300]), flush=True)
        pool.close()
        pool.join()
    finally:
        pool.terminate()
    results.sort(key=lambda r: r["key"])
    return finish(mod, pid, tier, seed, results, time.time() - t0, verbose)


def finish(mod, pid, tier, seed, results, wall, verbose=False):
    known = {k["id"]: k for k in load_known_findings() if k["property"] == pid}
    harness = [r for r in results if r["status"] in ("harness_error", "inconclusive")]
    viol = [r for r in results if r["status"] == "violation"]
    seen_known = {}
    for r in results:
        for k in r["known"]:
            seen_known.setdefault(k["finding"], []).append((r["key"], k))
    rc = EXIT_OK
    lines = []
    # known findings: only those listed as open in the committed file suppress
    for fid, occ in sorted(seen_known.items()):
        kf = known.get(fid)
        if kf is None or kf.get("status") != "open":
            # a region the check knows but the file does not list as open: this is a violation
            for key, k in occ[:1]:
                viol.append({"key": key, "violations": [{"case": k["case"], "detail": k.get("detail"),
                                                          "note": "finding %s is not listed as open" % fid}]})
        else:
            lines.append("KNOWN-FINDING: property=%s %s: %s (seen in %d harness instance(s))" % (pid, fid, kf["title"], len(occ)))
    replay_dir = os.path.join(VERIF, "replays")
    nviol = 0
    if harness:
        rc = EXIT_HARNESS
        for r in harness[:10]:
            lines.append("HARNESS-ERROR property=%s obligation=%s: %s %s" % (pid, r["key"], r["error"] or "", "; ".join(map(str, r["inconclusive"][:3]))))
    if viol:
        os.makedirs(replay_dir, exist_ok=True)
        for r in viol:
            for i, v in enumerate(r["violations"]):
                nviol += 1
                name = "%s_%s_%d.json" % (pid, "".join(c if c.isalnum() else "_" for c in r["key"])[:80], i)
                path = os.path.join(replay_dir, name)
                with open(path, "w") as f:
                    json.dump({"property": pid, "obligation": r["key"], **v}, f, indent=1, default=str)
                lines.append("VIOLATION property=%s replay=%s" % (pid, path))
        # a replayed violation is definitive, whatever else stayed inconclusive
        rc = EXIT_VIOLATION
    write_evidence(mod, pid, tier, seed, results, wall, nviol, sorted(seen_known), harness)
    for ln in lines:
        print(ln)
    tot = lambda k: sum(r[k] for r in results)
    print("%s %s: %d obligations, %d paths, %d queries (%d unsat / %d sat), solver %.1fs, %d witnesses replayed, wall %.1fs -> exit %d" % (
        pid, tier, len(results), tot("paths"), tot("queries"), tot("unsat"), tot("sat"), tot("solver_s"), tot("validated"), wall, rc))
    return rc


def write_evidence(mod, pid, tier, seed, results, wall, nviol, known_seen, harness):
    tot = lambda k: sum(r[k] for r in results)
    covered = sorted(set(c for r in results for c in r.get("covered", [])))
    samples = []
    for r in results:
        for s in r["samples"][:1]:
            samples.append({"obligation": r["key"], **s})
        if len(samples) >= 12:
            break
    if not samples:
        samples = [{"obligation": r["key"], "describe": r["describe"]} for r in results[:3]]
    ev = {
        "property_id": pid,
        "tier": tier,
        "seed": int(seed),
        "level": "model_checking",
        "coverage": {
            "states": max(1, tot("paths")),
            "transitions": max(1, tot("decisions")),
            "traces_validated_against_impl": tot("validated"),
            "samples": samples or [{"note": "no obligations ran"}],
            "evaluations": tot("paths"),
            "distinct_nontrivial": tot("nontrivial"),
            "rule": "one evaluation = one feasible path (an equivalence class of inputs the code cannot tell apart) of one "
                    "harness instance; non-trivial = the path reached the property assertion with a lineage result",
            "obligations": len(results),
            "obligations_holding": sum(1 for r in results if r["status"] == "holds"),
            "obligations_skipped_dialect_rejects_template": sum(1 for r in results if r.get("skipped")),
            "queries": tot("queries"),
            "unsat": tot("unsat"),
            "sat": tot("sat"),
            "solver_s": round(tot("solver_s"), 2),
            "inconclusive": sum(len(r["inconclusive"]) for r in results),
            "cross_solver_checked": sum(r.get("cross_checked", 0) for r in results),
            "sensitivity_twins": {k: sum(1 for r in results if r.get("twin") == k) for k in ("reported", "missed", "n/a")},
            "harness_errors": [{"obligation": r["key"], "error": (r["error"] or "")[:400]} for r in harness[:10]],
            "known_findings_seen": known_seen,
            "functions_encoded": covered,
            "bounds": getattr(mod, "BOUNDS", ""),
            "stubs": getattr(mod, "STUBS", []),
            "obligation_list": [{"key": r["key"], "status": r["status"], "paths": r["paths"], "queries": r["queries"],
                                 "solver_s": r["solver_s"], "wall_s": r.get("wall_s")} for r in results][:400],
        },
        "assumptions": getattr(mod, "ASSUMPTIONS", []),
        "wall_s": round(wall, 2),
        "violations": nviol,
    }
    # evidence under /verif/evidence describes /repo only; a run pointed at another tree (seeded change, mutant) through
    # LX_REPO writes its evidence to scratch
    alt = os.environ.get("LX_REPO")
    evdir = os.path.join(VERIF, "evidence") if not alt or os.path.realpath(alt) == "/repo" else \
        os.environ.get("LX_EVIDENCE_DIR", "/var/tmp/lx-evidence-alt")
    os.makedirs(evdir, exist_ok=True)
    with open(os.path.join(evdir, pid + ".json"), "w") as f:
        json.dump(ev, f, indent=1, default=str)


def main(argv=None):
    import argparse

    ap = argparse.ArgumentParser()
    ap.add_argument("pid")
    ap.add_argument("--tier", default=os.environ.get("VERIF_TIER", "quick"), choices=["quick", "thorough"])
    ap.add_argument("--seed", type=int, default=int(os.environ.get("VERIF_SEED", "0") or 0))
    ap.add_argument("--jobs", type=int, default=None)
    ap.add_argument("--only", action="append")
    ap.add_argument("-v", "--verbose", action="store_true")
    ap.add_argument("--replay")
    a = ap.parse_args(argv)
    modname = "checks.%s" % a.pid.lower()
    if a.replay:
        with open(a.replay) as f:
            print(json.dumps(json.load(f), indent=1))
        return 0
    try:
        return run_check(modname, a.tier, a.seed, a.jobs, a.only, a.verbose)
    except SystemExit:
        raise
    except BaseException:
        traceback.print_exc()
        return EXIT_HARNESS


if __name__ == "__main__":
    sys.exit(main())
