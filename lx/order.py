"""
C11 mode: hash-seed nondeterminism as a symbolic schedule.

In LX every set iterates in a fixed order (all hashes are 0).  In production, sets of name-hashed objects iterate in
an order fixed by PYTHONHASHSEED.  This module makes that order symbolic: every distinct printed name gets a free
8-bit HASH RANK (equal names share a rank, distinct names have distinct ranks) and `__lx_order__(s)` (see hook.py)
returns a builtin set's elements sorted by rank - each comparison is a solver decision, and because the rank terms
are reused the same pair is decided once per path.  The model over-approximates (a ranking no seed realises is
possible), hence the seed replay in the check.
"""
from __future__ import annotations

import functools

import z3

from . import hook
from .engine import SymStr, eng, mkbool


class RankModel:
    def __init__(self, tag="rk", kinds=None):
        self.tag = tag
        self.kinds = kinds  # None: every set is permuted; else only sets whose elements are all of these kinds
        self.names = []     # (SymStr name, rank term)

    @staticmethod
    def kind(x):
        if isinstance(x, str):
            return "str"
        if isinstance(x, tuple):
            return "tuple"
        n = type(x).__name__
        if n.endswith(("Table", "SubQuery", "Path", "Schema")):
            return "dataset"
        if n.endswith("Column"):
            return "column"
        return "other"

    def key_name(self, x):
        """the text a set element's hash is derived from"""
        if isinstance(x, str):
            return SymStr.const(x)
        if isinstance(x, tuple):
            out = SymStr.const("(")
            for y in x:
                out = out + self.key_name(y) + ","
            return out + ")"
        q = getattr(x, "query_raw", None)
        if q is not None and type(x).__name__.endswith("SubQuery"):
            return SymStr.const("sq:") + SymStr.const(q)
        try:
            return SymStr.const(type(x).__name__[:1] + ":") + SymStr.const(str(x))
        except Exception:
            return SymStr.const(repr(type(x)))

    def rank(self, x):
        nm = self.key_name(x)
        for n, r in self.names:
            if len(n) == len(nm) and bool(n == nm):
                return r
        e = eng()
        r = z3.BitVec("%s#%d" % (self.tag, len(self.names)), 8)
        for _, r2 in self.names:
            e.assume(r != r2)
        self.names.append((nm, r))
        return r

    def order(self, elems):
        if len(elems) < 2:
            return elems
        if self.kinds is not None and not all(self.kind(x) in self.kinds for x in elems):
            return elems
        ranked = [(self.rank(x), x) for x in elems]

        def cmp(a, b):
            if a[0] is b[0]:
                return 0
            return -1 if eng().decide(z3.ULT(a[0], b[0])) else 1
        return [x for _, x in sorted(ranked, key=functools.cmp_to_key(cmp))]


class symbolic_order:
    """context manager: set iteration follows a RankModel"""

    def __init__(self, model=None, kinds=None):
        self.model = model or RankModel(kinds=kinds)

    def __enter__(self):
        self.prev = hook.ORDER["mode"]
        hook.ORDER["mode"] = self.model.order
        # a builtin set handed to networkx as a node bunch (out_edges(nbunch=...), subgraph(...), degree(...)) is iterated
        # inside networkx, where the source rewrite does not reach: order it at the one funnel every such call goes through
        import networkx as nx

        self._nbunch_iter = real = nx.Graph.nbunch_iter
        order = self.model.order

        def nbunch_iter(g, nbunch=None):
            if isinstance(nbunch, (set, frozenset)) and hook.ORDER["mode"] is not None:
                nbunch = order(list(nbunch))
            return real(g, nbunch)
        nx.Graph.nbunch_iter = nbunch_iter
        return self.model

    def __exit__(self, *a):
        import networkx as nx

        nx.Graph.nbunch_iter = self._nbunch_iter
        hook.ORDER["mode"] = self.prev
        return False
