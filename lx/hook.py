"""
Import hook: load every `sqllineage.*` (optionally `sqlparse.*`) module from the CURRENT source tree,
apply a mechanical AST rewrite and execute the result.  The rewrite only touches constructs whose CPython
implementation would read a str's C buffer behind a symbolic object's back (f-strings, str.join, %,
hash(), int()), membership tests (hash-safe for symbolic keys) and iteration over builtin sets (C11 mode).
No function of the code under test is re-implemented, skipped or summarised.
"""
from __future__ import annotations

import ast
import importlib.abc
import importlib.machinery
import os
import sys

from . import engine as E

COVERED: set = set()          # "<module>:<qualname>" of every rewritten function that was entered
REWRITTEN_FILES: dict = {}    # module name -> path
ORDER = {"mode": None}        # C11: None (identity) or a callable(list)->list


def lx_order(x):
    """iteration order of builtin sets: identity unless a C11 order model is active"""
    m = ORDER["mode"]
    if m is None:
        return x
    if type(x) in (set, frozenset):
        return m(list(x))
    return x


def lx_setpop(x, *a):
    m = ORDER["mode"]
    if m is not None and type(x) is set and not a:
        if not x:
            raise KeyError("pop from an empty set")
        v = m(list(x))[0]
        x.remove(v)
        return v
    return x.pop(*a)


def lx_next(it, *a):
    return next(it, *a)


_HELPERS = {
    "__lx_fstr__": E.lx_fstr,
    "__lx_join__": E.lx_join,
    "__lx_hash__": E.lx_hash,
    "__lx_mod__": E.lx_mod,
    "__lx_int__": E.lx_int,
    "__lx_in__": E.lx_in,
    "__lx_order__": lx_order,
    "__lx_setpop__": lx_setpop,
    "__lx_cov__": COVERED,
}

_ORDER_CALLS = {"iter", "list", "tuple", "enumerate", "sorted", "max", "min", "any", "all", "zip", "map",
                "filter", "sum", "reversed", "frozenset", "dict"}


def _name(n):
    return ast.Name(n, ast.Load())


class Rewriter(ast.NodeTransformer):
    def __init__(self, modname):
        self.modname = modname
        self.scope = []

    # ---- coverage probes -------------------------------------------------------------
    def _probe(self, node):
        self.scope.append(node.name)
        qual = ".".join(self.scope)
        self.generic_visit(node)
        self.scope.pop()
        if isinstance(node, (ast.FunctionDef, ast.AsyncFunctionDef)):
            probe = ast.Expr(ast.Call(ast.Attribute(_name("__lx_cov__"), "add", ast.Load()),
                                      [ast.Constant("%s:%s" % (self.modname, qual))], []))
            body = node.body
            # keep a docstring first
            idx = 1 if (body and isinstance(body[0], ast.Expr) and isinstance(body[0].value, ast.Constant)
                        and isinstance(body[0].value.value, str)) else 0
            node.body = body[:idx] + [probe] + body[idx:]
        return node

    visit_FunctionDef = _probe
    visit_AsyncFunctionDef = _probe
    visit_ClassDef = _probe

    # ---- string building -------------------------------------------------------------
    def visit_JoinedStr(self, node):
        self.generic_visit(node)
        args = []
        for v in node.values:
            if isinstance(v, ast.Constant):
                args.append(v)
            else:
                if v.format_spec is not None:
                    return node
                conv = {-1: None, 115: None, 114: "r", 97: "r"}.get(v.conversion, None)
                args.append(ast.Tuple([v.value, ast.Constant(conv)], ast.Load()))
        return ast.copy_location(ast.Call(_name("__lx_fstr__"), args, []), node)

    def visit_BinOp(self, node):
        self.generic_visit(node)
        if isinstance(node.op, ast.Mod):
            return ast.copy_location(ast.Call(_name("__lx_mod__"), [node.left, node.right], []), node)
        return node

    def visit_Compare(self, node):
        self.generic_visit(node)
        if len(node.ops) == 1 and isinstance(node.ops[0], (ast.In, ast.NotIn)):
            neg = isinstance(node.ops[0], ast.NotIn)
            return ast.copy_location(
                ast.Call(_name("__lx_in__"), [node.left, node.comparators[0], ast.Constant(neg)], []), node)
        return node

    def visit_Call(self, node):
        self.generic_visit(node)
        f = node.func
        plain_args = not node.keywords and not any(isinstance(a, ast.Starred) for a in node.args)
        if isinstance(f, ast.Name):
            if f.id == "hash" and len(node.args) == 1 and plain_args:
                return ast.copy_location(ast.Call(_name("__lx_hash__"), node.args, []), node)
            if f.id == "int" and node.args:
                return ast.copy_location(ast.Call(_name("__lx_int__"), node.args, node.keywords), node)
            if f.id in _ORDER_CALLS and node.args:
                node.args = [self._ord(a) if not isinstance(a, ast.Starred) else a for a in node.args]
                return node
            if f.id == "set" and node.args:
                return node
        if isinstance(f, ast.Attribute):
            if f.attr == "join" and len(node.args) == 1 and plain_args:
                return ast.copy_location(ast.Call(_name("__lx_join__"), [f.value, self._ord(node.args[0])], []), node)
            if f.attr == "pop" and len(node.args) == 0 and plain_args:
                return ast.copy_location(ast.Call(_name("__lx_setpop__"), [f.value], []), node)
            if f.attr in ("product", "chain", "permutations", "combinations") and node.args:
                node.args = [self._ord(a) if not isinstance(a, ast.Starred) else a for a in node.args]
                return node
            if f.attr in ("update", "extend", "union", "add_nodes_from", "add_edges_from") and node.args:
                node.args = [self._ord(a) if not isinstance(a, ast.Starred) else a for a in node.args]
                return node
        return node

    # ---- iteration order of sets -----------------------------------------------------
    def _ord(self, it):
        if isinstance(it, ast.Call) and isinstance(it.func, ast.Name) and it.func.id == "__lx_order__":
            return it
        return ast.copy_location(ast.Call(_name("__lx_order__"), [it], []), it)

    def visit_For(self, node):
        self.generic_visit(node)
        node.iter = self._ord(node.iter)
        return node

    def visit_comprehension(self, node):
        self.generic_visit(node)
        node.iter = self._ord(node.iter)
        return node

    def visit_Starred(self, node):
        self.generic_visit(node)
        if isinstance(node.ctx, ast.Load):
            node.value = self._ord(node.value)
        return node


def rewrite_source(src, path, modname):
    tree = ast.parse(src, path)
    tree = Rewriter(modname).visit(tree)
    ast.fix_missing_locations(tree)
    return compile(tree, path, "exec")


class _Loader(importlib.abc.Loader):
    def __init__(self, path, name):
        self.path = path
        self.name = name

    def create_module(self, spec):
        return None

    def exec_module(self, module):
        with open(self.path, encoding="utf-8") as f:
            src = f.read()
        code = rewrite_source(src, self.path, self.name)
        module.__dict__.update(_HELPERS)
        REWRITTEN_FILES[self.name] = self.path
        exec(code, module.__dict__)


class _Finder(importlib.abc.MetaPathFinder):
    def __init__(self, prefixes):
        self.prefixes = tuple(prefixes)

    def find_spec(self, name, path, target=None):
        if not any(name == p or name.startswith(p + ".") for p in self.prefixes):
            return None
        spec = importlib.machinery.PathFinder.find_spec(name, path)
        if spec is None or not spec.origin or not spec.origin.endswith(".py"):
            return spec
        spec.loader = _Loader(spec.origin, name)
        return spec


_installed = []


def repo_root():
    return os.environ.get("LX_REPO", "/repo")


def install(prefixes=("sqllineage",)):
    """must run before the first import of the prefixes"""
    root = repo_root()
    if root not in sys.path:
        sys.path.insert(0, root)
    new = [p for p in prefixes if p not in _installed]
    for p in new:
        if p in sys.modules:
            raise E.HarnessError("%s imported before the lifting hook was installed" % p)
    if new:
        sys.meta_path.insert(0, _Finder(new))
        _installed.extend(new)
