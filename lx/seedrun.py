"""run the unmodified library on one concrete input under many PYTHONHASHSEED values (fresh process per seed)"""
from __future__ import annotations

import json
import os
import subprocess
from concurrent.futures import ThreadPoolExecutor

HERE = os.path.dirname(os.path.abspath(__file__))
PROG = r'''
import json, sys, warnings
warnings.simplefilter("ignore")
sys.path.insert(0, %(repo)r)
req = json.loads(sys.argv[1])
from sqllineage.runner import LineageRunner
from sqllineage.core.metadata.dummy import DummyMetaDataProvider
import re
anon = lambda s: re.sub(r"subquery_-?\d+", "subquery_#", s)
kw = {}
if req.get("metadata") is not None: kw["metadata_provider"] = DummyMetaDataProvider(req["metadata"])
try:
    lr = LineageRunner(req["sql"], dialect=req.get("dialect", "ansi"), **kw)
    out = {"sources": [anon(str(t)) for t in lr.source_tables], "targets": [anon(str(t)) for t in lr.target_tables],
           "intermediates": [anon(str(t)) for t in lr.intermediate_tables],
           "paths": [[anon(str(c)) for c in p] for p in lr.get_column_lineage()],
           "summary": anon(str(lr))}
    def canon(xs):
        nodes = sorted(json.dumps(x["data"], sort_keys=True) for x in xs if "source" not in x["data"])
        edges = sorted((x["data"]["source"], x["data"]["target"]) for x in xs if "source" in x["data"])
        return {"nodes": nodes, "edges": edges}
    ct, cc = json.loads(anon(json.dumps(lr.to_cytoscape()))), json.loads(anon(json.dumps(lr.to_cytoscape("column"))))
    if req.get("strict_export_order"):
        out["cyto_table"], out["cyto_column"] = ct, cc
    else:
        out["cyto_table"], out["cyto_column"] = canon(ct), canon(cc)
except Exception as e:
    out = {"error": type(e).__name__ + ": " + str(e)[:200]}
print(json.dumps(out, sort_keys=True))
'''


def run_seed(req, seed):
    env = dict(os.environ)
    env["PYTHONHASHSEED"] = str(seed)
    env.pop("PYTHONPATH", None)
    p = subprocess.run(["/venv/bin/python", "-c", PROG % {"repo": os.environ.get("LX_REPO", "/repo")}, json.dumps(req)],
                       capture_output=True, text=True, env=env, cwd="/", timeout=120)
    line = p.stdout.strip().splitlines()[-1] if p.stdout.strip() else json.dumps({"error": "no output: " + p.stderr[-200:]})
    return seed, line


def across_seeds(req, seeds, threads=4):
    """-> dict canonical-output -> [seeds]"""
    out = {}
    with ThreadPoolExecutor(threads) as ex:
        for seed, line in ex.map(lambda s: run_seed(req, s), seeds):
            out.setdefault(line, []).append(seed)
    return out
