"""
Replay worker: runs the UNMODIFIED library (plain import from the repository root, no hook, no stubs) on
concrete inputs.  Speaks JSON lines on stdin/stdout.  Started by lx/replay.py with /venv/bin/python.
"""
import io
import json
import os
import sys
import warnings


def _dump(lr):
    out = {}
    out["sources"] = [str(t) for t in lr.source_tables]
    out["targets"] = [str(t) for t in lr.target_tables]
    out["intermediates"] = [str(t) for t in lr.intermediate_tables]
    paths = lr.get_column_lineage()
    out["pairs"] = sorted({(str(p[0]), str(p[-1])) for p in paths})
    out["paths"] = [[str(c) for c in p] for p in paths]
    return out


def handle(req):
    from sqllineage.config import SQLLineageConfig
    from sqllineage.core.metadata.dummy import DummyMetaDataProvider
    from sqllineage.runner import LineageRunner

    kind = req.get("kind", "run")
    if kind == "run":
        cfg = req.get("config") or {}
        env = req.get("env") or {}
        old_env = {k: os.environ.get(k) for k in env}
        os.environ.update(env)
        try:
            kw = {}
            if req.get("metadata") is not None:
                kw["metadata_provider"] = DummyMetaDataProvider(req["metadata"])
            if req.get("silent_mode"):
                kw["silent_mode"] = True

            def go():
                lr = LineageRunner(req["sql"], dialect=req.get("dialect", "ansi"), **kw)
                try:
                    out = _dump(lr)
                except Exception as e:
                    from sqllineage.exceptions import SQLLineageException

                    if req.get("again") and isinstance(e, SQLLineageException):
                        # the same runner object asked again after a failure: a non-library exception here propagates
                        for acc in (lambda: lr.source_tables, lambda: lr.get_column_lineage(), lambda: lr.to_cytoscape(),
                                    lambda: str(lr), lambda: lr.statements()):
                            try:
                                acc()
                            except SQLLineageException:
                                pass
                    raise
                if req.get("cyto"):
                    out["cyto_table"] = lr.to_cytoscape()
                    out["cyto_column"] = lr.to_cytoscape("column")
                    out["summary"] = str(lr)
                if req.get("statements"):
                    out["statements"] = lr.statements()
                return out

            with warnings.catch_warnings(record=True) as w:
                warnings.simplefilter("always")
                if cfg and req.get("read_after_scope"):
                    # analysed inside the scoped override, results read after the scope has ended
                    with SQLLineageConfig(**cfg):
                        lr0 = LineageRunner(req["sql"], dialect=req.get("dialect", "ansi"), **kw)
                        lr0.source_tables
                    out = _dump(lr0)
                    if req.get("cyto"):
                        out["cyto_table"] = lr0.to_cytoscape()
                        out["cyto_column"] = lr0.to_cytoscape("column")
                        out["summary"] = str(lr0)
                elif cfg:
                    with SQLLineageConfig(**cfg):
                        out = go()
                else:
                    out = go()
                out["warnings"] = [type(x.message).__name__ for x in w]
            return out
        finally:
            for k, v in old_env.items():
                if v is None:
                    os.environ.pop(k, None)
                else:
                    os.environ[k] = v
    if kind == "exec":
        # run a small python program against the unmodified library; it must set `result`
        g = {"__name__": "__replay__"}
        with warnings.catch_warnings():
            warnings.simplefilter("ignore")
            exec(compile(req["code"], "<replay>", "exec"), g)
        return {"result": g.get("result")}
    raise ValueError("unknown request kind %r" % kind)


def main():
    root = os.environ.get("LX_REPO", "/repo")
    sys.path.insert(0, root)
    warnings.simplefilter("ignore")
    import sqllineage  # noqa: F401  (fail early)
    import sqllineage.runner  # noqa: F401

    # site's exit()/quit() close sys.stdin before raising SystemExit, which would end this worker's protocol when
    # library code calls exit(); keep the SystemExit, drop the close
    import builtins

    def _exit(code=None):
        raise SystemExit(code)

    builtins.exit = builtins.quit = _exit
    real_stdout = sys.stdout
    sys.stdout = io.StringIO()  # library prints must not corrupt the protocol
    real_stdout.write(json.dumps({"ready": True, "file": sqllineage.__file__}) + "\n")
    real_stdout.flush()
    for line in sys.stdin:
        line = line.strip()
        if not line:
            continue
        req = json.loads(line)
        try:
            res = handle(req)
            res = {"ok": True, **res}
        except BaseException as e:  # noqa
            import traceback

            res = {"ok": False, "error": type(e).__name__, "mro": [c.__name__ for c in type(e).__mro__],
                   "message": str(e)[:500], "tb": traceback.format_exc()[-1500:]}
        sys.stdout = io.StringIO()
        real_stdout.write(json.dumps(res, default=str) + "\n")
        real_stdout.flush()


if __name__ == "__main__":
    main()
