"""
LX engine: lifted execution of real Python code over symbolic names.

The code under test runs natively under CPython.  Inputs are SymStr / SymInt / SymBool
objects whose content is a z3 term.  The only place where control flow meets a symbol is
Engine.decide(): it asks z3 whether both outcomes are feasible under the current path
condition, takes one and schedules the other (depth-first re-execution of the harness).

Strings have a CONCRETE length; each character is an 8-bit term plus a may-alphabet.
Everything that would make a length symbolic forks instead, so every formula stays in
QF_BV over a few dozen 8-bit variables.
"""
from __future__ import annotations

import time

import z3

W = 8  # bits per character
CROSS = {"every": 0, "checked": 0, "n": 0}   # re-decide every N-th query with cvc5 (thorough tier)


class Unsupported(BaseException):
    """The lifting cannot model what the code just tried to do.  The path is inconclusive."""


class Abort(BaseException):
    """Path is infeasible / abandoned (engine-internal steering)."""


class HarnessError(BaseException):
    """The machinery itself is broken (non-deterministic replay, solver unknown, ...)."""


# --------------------------------------------------------------------------------------
# formula helpers over python bools / z3 Bools
# --------------------------------------------------------------------------------------

def f_not(a):
    return (not a) if isinstance(a, bool) else z3.Not(a)


def f_and(xs):
    out = []
    for x in xs:
        if isinstance(x, bool):
            if not x:
                return False
        else:
            out.append(x)
    return True if not out else (out[0] if len(out) == 1 else z3.And(*out))


def f_or(xs):
    out = []
    for x in xs:
        if isinstance(x, bool):
            if x:
                return True
        else:
            out.append(x)
    return False if not out else (out[0] if len(out) == 1 else z3.Or(*out))


def f_ite(c, a, b):
    """boolean if-then-else over python bools / z3 Bools"""
    if isinstance(c, bool):
        return a if c else b
    if isinstance(a, bool) and isinstance(b, bool):
        if a == b:
            return a
        return c if a else z3.Not(c)
    az = z3.BoolVal(a) if isinstance(a, bool) else a
    bz = z3.BoolVal(b) if isinstance(b, bool) else b
    return z3.If(c, az, bz)


def f_iff(a, b):
    if isinstance(a, bool) and isinstance(b, bool):
        return a == b
    if isinstance(a, bool):
        return b if a else f_not(b)
    if isinstance(b, bool):
        return a if b else f_not(a)
    return a == b


def f_implies(a, b):
    return f_or([f_not(a), b])


# --------------------------------------------------------------------------------------
# characters
# --------------------------------------------------------------------------------------

class Ch:
    """one character: t = int code or 8-bit z3 term; al = may-alphabet (frozenset of codes) or None"""

    __slots__ = ("t", "al")

    def __init__(self, t, al=None):
        self.t = t
        self.al = frozenset([t]) if isinstance(t, int) else al

    def conc(self):
        return isinstance(self.t, int)

    def z(self):
        return z3.BitVecVal(self.t, W) if isinstance(self.t, int) else self.t


def ch_eq(a: Ch, b: Ch):
    if a is b:
        return True
    if a.conc() and b.conc():
        return a.t == b.t
    if a.al is not None and b.al is not None and not (a.al & b.al):
        return False
    if (not a.conc()) and (not b.conc()) and a.t.eq(b.t):
        return True
    return a.z() == b.z()


def ch_in(a: Ch, codes):
    codes = list(codes)
    if a.conc():
        return a.t in codes
    if a.al is not None:
        hit = a.al & set(codes)
        if not hit:
            return False
        if hit == a.al:
            return True
        codes = sorted(hit)
    return f_or([a.z() == z3.BitVecVal(k, W) for k in codes])


def ch_map(a: Ch, lo, hi, delta):
    """if lo<=c<=hi: c+delta else c"""
    if a.conc():
        return Ch(a.t + delta if lo <= a.t <= hi else a.t)
    if a.al is not None and not any(lo <= k <= hi for k in a.al):
        return a
    al = frozenset((k + delta if lo <= k <= hi else k) for k in a.al) if a.al is not None else None
    if al is not None and len(al) == 1:
        return Ch(next(iter(al)))
    if a.al is not None and all(lo <= k <= hi for k in a.al):
        return Ch(a.t + delta, al)
    return Ch(z3.If(z3.And(z3.UGE(a.t, lo), z3.ULE(a.t, hi)), a.t + delta, a.t), al)


def ch_ult(a: Ch, b: Ch):
    if a.conc() and b.conc():
        return a.t < b.t
    if a.al is not None and b.al is not None:
        if max(a.al) < min(b.al):
            return True
        if min(a.al) >= max(b.al):
            return False
    return z3.ULT(a.z(), b.z())


# --------------------------------------------------------------------------------------
# engine
# --------------------------------------------------------------------------------------

class PathResult:
    __slots__ = ("value", "trace", "model", "status", "info")

    def __init__(self, value, trace, model, status, info=None):
        self.value = value      # what the harness returned
        self.trace = trace      # list of bool decisions
        self.model = model      # z3 model of the path condition
        self.status = status    # 'ok' | 'unsupported'
        self.info = info


class Engine:
    cur: "Engine" = None

    def __init__(self, max_paths=200000, deadline=None, label=""):
        self.label = label
        self.domains = {}          # var name -> constraint
        self.extra_base = []       # harness-level assumptions valid on all paths
        self.stats = dict(paths=0, queries=0, solver_s=0.0, forks=0, decisions=0, aborted=0,
                          unsupported=0, sat=0, unsat=0)
        self.max_paths = max_paths
        self.deadline = deadline
        self.cons = []
        self.running = False
        self.work = []

    # ---- variables -------------------------------------------------------------------
    def char_var(self, name, alphabet):
        al = frozenset(alphabet)
        if len(al) == 1:
            return Ch(next(iter(al)))
        v = z3.BitVec(name, W)
        if name not in self.domains:
            self.domains[name] = z3.Or(*[v == z3.BitVecVal(a, W) for a in sorted(al)])
        return Ch(v, al)

    def int_var(self, name, lo, hi, width=16):
        v = z3.BitVec(name, width)
        if name not in self.domains:
            self.domains[name] = z3.And(z3.UGE(v, lo), z3.ULE(v, hi))
        return v

    def bool_var(self, name):
        return z3.Bool(name)

    def assume(self, c):
        """add an assumption to the CURRENT path (harness precondition); aborts if infeasible"""
        if isinstance(c, SymBool):
            c = c.e
        if isinstance(c, bool):
            if not c:
                raise Abort()
            return
        c = z3.simplify(c)
        if z3.is_true(c):
            return
        if z3.is_false(c):
            raise Abort()
        self.cons.append(c)
        self.mdl = None
        self.assumed.append(c)

    # ---- solving ---------------------------------------------------------------------
    def _solve(self, extra=None):
        if self.deadline is not None and time.time() > self.deadline:
            raise HarnessError("time budget exhausted in %s" % self.label)
        t = time.time()
        sv = z3.Tactic("qfbv").solver()
        if self.domains:
            sv.add(*self.domains.values())
        if self.cons:
            sv.add(*self.cons)
        if extra is not None:
            sv.add(extra)
        r = sv.check()
        self.stats["queries"] += 1
        self.stats["solver_s"] += time.time() - t
        if r == z3.unknown:
            raise HarnessError("solver returned unknown")
        if CROSS["every"]:
            CROSS["n"] += 1
            if CROSS["n"] % CROSS["every"] == 0:
                self._cross_check(extra, str(r))
        if r == z3.sat:
            self.stats["sat"] += 1
            return sv.model()
        self.stats["unsat"] += 1
        return None

    def _cross_check(self, extra, verdict):
        """second opinion: the same query re-decided by cvc5 (a different QF_BV decision procedure)"""
        try:
            import cvc5
        except Exception:
            return
        s2 = z3.Solver()
        if self.domains:
            s2.add(*self.domains.values())
        if self.cons:
            s2.add(*self.cons)
        if extra is not None:
            s2.add(extra)
        smt = "(set-logic QF_BV)\n" + s2.to_smt2()
        slv = cvc5.Solver()
        par = cvc5.InputParser(slv)
        par.setStringInput(cvc5.InputLanguage.SMT_LIB_2_6, smt, "q")
        sm = par.getSymbolManager()
        res = None
        while True:
            cmd = par.nextCommand()
            if cmd.isNull():
                break
            out = cmd.invoke(slv, sm).strip()
            if "(error" in out:
                raise HarnessError("cvc5 reported an error on a cross-checked query: %s" % out[:200])
            if out in ("sat", "unsat", "unknown"):
                res = out
        CROSS["checked"] += 1
        if res in ("sat", "unsat") and res != verdict:
            raise HarnessError("solver disagreement: z3 says %s, cvc5 says %s" % (verdict, res))

    def _start(self, prefix):
        self.cons = []
        self.prefix = prefix
        self.pos = 0
        self.trace = []
        self.cache = {}
        self.mdl = None
        self.assumed = []
        self.notes = []

    def decide(self, e):
        if isinstance(e, bool):
            return e
        if isinstance(e, SymBool):
            e = e.e
            if isinstance(e, bool):
                return e
        k0 = e.get_id()
        hit = self.cache.get(k0)
        if hit is not None and hit[0].eq(e):
            return hit[1]
        e0 = e
        e = z3.simplify(e)
        if z3.is_true(e):
            self.cache[k0] = (e0, True)
            return True
        if z3.is_false(e):
            self.cache[k0] = (e0, False)
            return False
        k = e.get_id()
        hit = self.cache.get(k)
        if hit is not None and hit[0].eq(e):
            self.cache[k0] = (e0, hit[1])
            return hit[1]
        self.stats["decisions"] += 1
        if self.pos < len(self.prefix):
            ch, pe = self.prefix[self.pos]
            if pe is not None and not pe.eq(e):
                raise HarnessError("non-deterministic re-execution at decision %d: %s vs %s" % (self.pos, pe, e))
            self.mdl = None
        else:
            if self.mdl is None:
                self.mdl = self._solve(None)
                if self.mdl is None:
                    self.stats["aborted"] += 1
                    raise Abort()
            cur = z3.is_true(self.mdl.eval(e, model_completion=True))
            other = self._solve(z3.Not(e) if cur else e)
            if other is not None:
                self.work.append(self.trace + [(not cur, e)])
                self.stats["forks"] += 1
            ch = cur
        self.pos += 1
        self.trace.append((ch, e))
        self.cons.append(e if ch else z3.Not(e))
        self.cache[k] = (e, ch)
        self.cache[k0] = (e0, ch)
        return ch

    def feasible(self, e):
        """is e satisfiable together with the current path condition? (no fork, no commitment)"""
        if isinstance(e, SymBool):
            e = e.e
        if isinstance(e, bool):
            return e
        return self._solve(e) is not None

    def model(self):
        m = self._solve(None)
        if m is None:
            raise Abort()
        return m

    def explore(self, fn, stop=None):
        """run fn() once per feasible decision sequence; returns list[PathResult]
        stop(result) -> True ends the exploration early (used by existential twins only, never by a verdict)"""
        prev = Engine.cur
        Engine.cur = self
        self.running = True
        self.work = [[]]
        results = []
        try:
            while self.work:
                prefix = self.work.pop()
                self._start(prefix)
                self.stats["paths"] += 1
                if self.stats["paths"] > self.max_paths:
                    raise HarnessError("path budget exhausted (%d) in %s" % (self.max_paths, self.label))
                try:
                    r = fn()
                    status, info = "ok", None
                except Abort:
                    self.stats["aborted"] += 1
                    continue
                except Unsupported as u:
                    r, status, info = None, "unsupported", repr(u)
                    self.stats["unsupported"] += 1
                if self.pos < len(self.prefix):
                    raise HarnessError("re-execution consumed fewer decisions than its prefix")
                try:
                    m = self.model()
                except Abort:
                    self.stats["aborted"] += 1
                    continue
                results.append(PathResult(r, [c for c, _ in self.trace], m, status, info))
                if stop is not None and stop(results[-1]):
                    break
        finally:
            self.running = False
            Engine.cur = prev
        return results


def eng() -> Engine:
    e = Engine.cur
    if e is None:
        raise HarnessError("symbolic value used outside Engine.explore")
    return e


# --------------------------------------------------------------------------------------
# SymBool
# --------------------------------------------------------------------------------------

class SymBool:
    __slots__ = ("e",)

    def __init__(self, e):
        self.e = e

    def __bool__(self):
        return eng().decide(self.e)

    def __hash__(self):
        return 0

    def __eq__(self, o):
        if isinstance(o, SymBool):
            return mkbool(f_iff(self.e, o.e))
        if isinstance(o, bool):
            return mkbool(f_iff(self.e, o))
        return NotImplemented

    def __ne__(self, o):
        r = self.__eq__(o)
        if r is NotImplemented:
            return r
        return mkbool(f_not(rawb(r)))

    def __and__(self, o):
        return mkbool(f_and([self.e, rawb(o)]))

    __rand__ = __and__

    def __or__(self, o):
        return mkbool(f_or([self.e, rawb(o)]))

    __ror__ = __or__

    def __invert__(self):
        return mkbool(f_not(self.e))

    def __repr__(self):
        return "SymBool(%s)" % (self.e,)


def mkbool(e):
    return e if isinstance(e, bool) else SymBool(e)


def rawb(e):
    if isinstance(e, SymBool):
        return e.e
    if isinstance(e, bool):
        return e
    return bool(e)


# --------------------------------------------------------------------------------------
# SymStr
# --------------------------------------------------------------------------------------

_CONST_CACHE = {}
_CH_CACHE = {}
_EQ_CACHE = {}


def _ch_const(code):
    c = _CH_CACHE.get(code)
    if c is None:
        c = _CH_CACHE[code] = Ch(code)
    return c


POISON = "\x00SYM\x00"
_WS = " \t\n\r\x0b\x0c"


class SymStr(str):
    """str subclass with concrete length and symbolic characters"""

    def __new__(cls, cs):
        cs = list(cs)
        if all(c.conc() for c in cs):
            self = str.__new__(cls, "".join(chr(c.t) for c in cs))
            self._conc = True
        else:
            self = str.__new__(cls, POISON)
            self._conc = False
        self.cs = cs
        return self

    # ---- construction ----------------------------------------------------------------
    @staticmethod
    def const(s):
        if isinstance(s, SymStr):
            return s
        r = _CONST_CACHE.get(s)
        if r is not None:
            return r
        if not isinstance(s, str):
            raise Unsupported("SymStr.const(%r)" % type(s))
        r = SymStr([_ch_const(ord(c)) for c in s])
        if len(_CONST_CACHE) < 200000:
            _CONST_CACHE[s] = r
        return r

    @staticmethod
    def var(name, length, alphabet, first_alphabet=None):
        e = eng()
        al = [ord(c) for c in alphabet]
        fal = [ord(c) for c in first_alphabet] if first_alphabet is not None else al
        return SymStr([e.char_var("%s#%d" % (name, i), fal if i == 0 else al) for i in range(length)])

    def concrete(self):
        return self._conc

    def value(self, model):
        if self._conc:
            return str.__str__(self)
        out = []
        for c in self.cs:
            if c.conc():
                out.append(chr(c.t))
            else:
                out.append(chr(model.eval(c.t, model_completion=True).as_long()))
        return "".join(out)

    def plain(self):
        """the plain python str, only for concrete strings"""
        if not self._conc:
            raise Unsupported("plain() of symbolic string")
        return "".join(chr(c.t) for c in self.cs)

    # ---- core protocol ---------------------------------------------------------------
    def __hash__(self):
        return 0

    def __str__(self):
        return self

    def __repr__(self):
        return "S'" + "".join(chr(c.t) if c.conc() else "?" for c in self.cs) + "'"

    def __len__(self):
        return len(self.cs)

    def __bool__(self):
        return len(self.cs) != 0

    def __reduce__(self):
        raise Unsupported("pickle of SymStr")

    def _eq(self, o):
        o = SymStr.const(o)
        if self is o:
            return True
        if len(self.cs) != len(o.cs):
            return False
        sym = []
        for a, b in zip(self.cs, o.cs):
            if a is b:
                continue
            ta, tb = a.t, b.t
            if isinstance(ta, int) and isinstance(tb, int):
                if ta != tb:
                    return False
                continue
            sym.append((a, b))
        if not sym:
            return True
        key = tuple((a.t if isinstance(a.t, int) else -a.t.get_id() - 1, b.t if isinstance(b.t, int) else -b.t.get_id() - 1)
                    for a, b in sym)
        hit = _EQ_CACHE.get(key)
        if hit is not None:
            return hit[0]
        r = f_and([ch_eq(a, b) for a, b in sym])
        if len(_EQ_CACHE) < 500000:
            _EQ_CACHE[key] = (r, sym)   # keep the terms alive so that ids are not reused
        return r

    def __eq__(self, o):
        if not isinstance(o, str):
            return NotImplemented
        return mkbool(self._eq(o))

    def __ne__(self, o):
        if not isinstance(o, str):
            return NotImplemented
        return mkbool(f_not(self._eq(o)))

    def _lt(self, o):
        o = SymStr.const(o)
        res = len(self.cs) < len(o.cs)
        for a, b in reversed(list(zip(self.cs, o.cs))):
            eq, lt = ch_eq(a, b), ch_ult(a, b)
            if eq is True:
                continue
            if eq is False:
                res = lt
                continue
            res = f_ite(eq, res, lt)
        return res

    def __lt__(self, o):
        if not isinstance(o, str):
            return NotImplemented
        return mkbool(self._lt(o))

    def __gt__(self, o):
        if not isinstance(o, str):
            return NotImplemented
        return mkbool(SymStr.const(o)._lt(self))

    def __le__(self, o):
        if not isinstance(o, str):
            return NotImplemented
        return mkbool(f_not(SymStr.const(o)._lt(self)))

    def __ge__(self, o):
        if not isinstance(o, str):
            return NotImplemented
        return mkbool(f_not(self._lt(o)))

    def __add__(self, o):
        if not isinstance(o, str):
            return NotImplemented
        return SymStr(self.cs + SymStr.const(o).cs)

    def __radd__(self, o):
        if not isinstance(o, str):
            return NotImplemented
        return SymStr(SymStr.const(o).cs + self.cs)

    def __mul__(self, n):
        if not isinstance(n, int) or isinstance(n, SymInt):
            raise Unsupported("str * sym")
        return SymStr(self.cs * n)

    __rmul__ = __mul__

    def __getitem__(self, k):
        if isinstance(k, SymInt):
            raise Unsupported("str[symint]")
        if isinstance(k, slice):
            return SymStr(self.cs[k])
        return SymStr([self.cs[k]])

    def __iter__(self):
        for c in self.cs:
            yield SymStr([c])

    def __contains__(self, sub):
        if not isinstance(sub, str):
            raise TypeError("'in <string>' requires string as left operand")
        sub = SymStr.const(sub)
        k = len(sub.cs)
        if k == 0:
            return True
        alts = [f_and([ch_eq(self.cs[off + j], sub.cs[j]) for j in range(k)])
                for off in range(len(self.cs) - k + 1)]
        return self._dec(f_or(alts))

    def _prefix_at(self, p, off):
        p = SymStr.const(p)
        if off < 0 or off + len(p.cs) > len(self.cs):
            return False
        return f_and([ch_eq(self.cs[off + j], p.cs[j]) for j in range(len(p.cs))])

    def startswith(self, p, *a):
        if a:
            raise Unsupported("startswith with range")
        if isinstance(p, tuple):
            return mkbool(f_or([rawb(self.startswith(x)) for x in p]))
        return mkbool(self._prefix_at(p, 0))

    def endswith(self, p, *a):
        if a:
            raise Unsupported("endswith with range")
        if isinstance(p, tuple):
            return mkbool(f_or([rawb(self.endswith(x)) for x in p]))
        p = SymStr.const(p)
        return mkbool(self._prefix_at(p, len(self.cs) - len(p.cs)))

    def lower(self):
        return SymStr([ch_map(c, 65, 90, 32) for c in self.cs])

    def upper(self):
        return SymStr([ch_map(c, 97, 122, -32) for c in self.cs])

    def casefold(self):
        return self.lower()

    def _strip(self, chars, left, right):
        if chars is None:
            chars = _WS
        chars = SymStr.const(chars)
        if not chars.concrete():
            raise Unsupported("strip(symbolic set)")
        codes = [c.t for c in chars.cs]
        i, j = 0, len(self.cs)
        d = eng().decide if not self._conc else (lambda x: x)
        if left:
            while i < j and d(ch_in(self.cs[i], codes)):
                i += 1
        if right:
            while j > i and d(ch_in(self.cs[j - 1], codes)):
                j -= 1
        return SymStr(self.cs[i:j])

    def strip(self, chars=None):
        return self._strip(chars, True, True)

    def lstrip(self, chars=None):
        return self._strip(chars, True, False)

    def rstrip(self, chars=None):
        return self._strip(chars, False, True)

    def removeprefix(self, p):
        p = SymStr.const(p)
        if bool(self.startswith(p)):
            return SymStr(self.cs[len(p.cs):])
        return self

    def removesuffix(self, p):
        p = SymStr.const(p)
        if len(p.cs) and bool(self.endswith(p)):
            return SymStr(self.cs[:len(self.cs) - len(p.cs)])
        return self

    def _dec(self, x):
        return x if isinstance(x, bool) else eng().decide(x)

    def split(self, sep=None, maxsplit=-1):
        if sep is None:
            if self._conc:
                return [SymStr.const(x) for x in self.plain().split(None, maxsplit)]
            raise Unsupported("split(None) on symbolic")
        sep = SymStr.const(sep)
        k = len(sep.cs)
        if k == 0:
            raise ValueError("empty separator")
        out, start, i, n = [], 0, 0, 0
        while i + k <= len(self.cs):
            if (maxsplit < 0 or n < maxsplit) and self._dec(self._prefix_at(sep, i)):
                out.append(SymStr(self.cs[start:i]))
                i += k
                start = i
                n += 1
            else:
                i += 1
        out.append(SymStr(self.cs[start:]))
        return out

    def rsplit(self, sep=None, maxsplit=-1):
        if sep is None:
            if self._conc:
                return [SymStr.const(x) for x in self.plain().rsplit(None, maxsplit)]
            raise Unsupported("rsplit(None) on symbolic")
        sep = SymStr.const(sep)
        k = len(sep.cs)
        if k == 0:
            raise ValueError("empty separator")
        out, end, i, n = [], len(self.cs), len(self.cs) - k, 0
        while i >= 0:
            if (maxsplit < 0 or n < maxsplit) and self._dec(self._prefix_at(sep, i)):
                out.append(SymStr(self.cs[i + k:end]))
                end = i
                i -= k
                n += 1
            else:
                i -= 1
        out.append(SymStr(self.cs[:end]))
        return list(reversed(out))

    def partition(self, sep):
        parts = self.split(sep, 1)
        if len(parts) == 1:
            return (self, SymStr.const(""), SymStr.const(""))
        return (parts[0], SymStr.const(sep), parts[1])

    def rpartition(self, sep):
        parts = self.rsplit(sep, 1)
        if len(parts) == 1:
            return (SymStr.const(""), SymStr.const(""), self)
        return (parts[0], SymStr.const(sep), parts[1])

    def find(self, sub, *a):
        if a:
            raise Unsupported("find with range")
        sub = SymStr.const(sub)
        for off in range(len(self.cs) - len(sub.cs) + 1):
            if self._dec(self._prefix_at(sub, off)):
                return off
        return -1

    def index(self, sub, *a):
        r = self.find(sub, *a)
        if r < 0:
            raise ValueError("substring not found")
        return r

    def count(self, sub, *a):
        if a:
            raise Unsupported("count with range")
        return len(self.split(sub)) - 1

    def replace(self, a, b, count=-1):
        a, b = SymStr.const(a), SymStr.const(b)
        if len(a.cs) == 0:
            raise Unsupported("replace('')")
        parts = self.split(a, count)
        return b.join(parts)

    def _all_in(self, pred_codes):
        if not self.cs:
            return False
        return mkbool(f_and([ch_in(c, pred_codes) for c in self.cs]))

    def isnumeric(self):
        return self._all_in(range(48, 58))

    isdigit = isnumeric
    isdecimal = isnumeric

    def isalpha(self):
        return self._all_in(list(range(65, 91)) + list(range(97, 123)))

    def isalnum(self):
        return self._all_in(list(range(48, 58)) + list(range(65, 91)) + list(range(97, 123)))

    def isspace(self):
        return self._all_in([ord(c) for c in _WS])

    def isupper(self):
        if self._conc:
            return self.plain().isupper()
        raise Unsupported("isupper")

    def islower(self):
        if self._conc:
            return self.plain().islower()
        raise Unsupported("islower")

    def join(self, it):
        out = []
        for i, p in enumerate(it):
            if not isinstance(p, str):
                raise TypeError("sequence item %d: expected str instance, %s found" % (i, type(p).__name__))
            if i:
                out += self.cs
            out += SymStr.const(p).cs
        return SymStr(out)

    def splitlines(self, keepends=False):
        if self._conc:
            return [SymStr.const(x) for x in self.plain().splitlines(keepends)]
        if bool(mkbool(f_or([ch_in(c, [10, 13, 11, 12, 28, 29, 30, 133]) for c in self.cs]))):
            raise Unsupported("splitlines on symbolic with line breaks")
        return [self]

    def __format__(self, spec):
        if self._conc:
            return format(self.plain(), spec)
        raise Unsupported("format() of symbolic string")

    def __mod__(self, o):
        if self._conc:
            return lx_mod(self.plain(), o)
        raise Unsupported("symbolic % args")

    def format(self, *a, **k):
        if self._conc and all(_is_plainable(x) for x in list(a) + list(k.values())):
            return SymStr.const(self.plain().format(*[_plain(x) for x in a], **{kk: _plain(v) for kk, v in k.items()}))
        raise Unsupported("str.format with symbolic")

    def encode(self, *a, **k):
        if self._conc:
            return self.plain().encode(*a, **k)
        raise Unsupported("encode of symbolic string")

    def __int__(self):
        if self._conc:
            return int(self.plain())
        raise Unsupported("int(symbolic)")


def _is_plainable(x):
    return not isinstance(x, (SymStr, SymInt, SymBool, SymHash)) or (isinstance(x, SymStr) and x.concrete())


def _plain(x):
    return x.plain() if isinstance(x, SymStr) else x


# every other str method: delegate to real str when concrete, refuse otherwise
def _install_fallbacks():
    modelled = set(SymStr.__dict__)
    for name in dir(str):
        if name in modelled or name.startswith("__"):
            continue
        real = getattr(str, name)
        if not callable(real):
            continue

        def mk(name, real):
            def method(self, *a, **k):
                if self._conc and all(_is_plainable(x) for x in a) and all(_is_plainable(x) for x in k.values()):
                    r = real(self.plain(), *[_plain(x) for x in a], **{kk: _plain(v) for kk, v in k.items()})
                    if isinstance(r, str):
                        return SymStr.const(r)
                    if isinstance(r, (list, tuple)) and all(isinstance(x, str) for x in r):
                        return type(r)(SymStr.const(x) for x in r)
                    return r
                raise Unsupported("str.%s on symbolic string" % name)

            method.__name__ = name
            return method

        setattr(SymStr, name, mk(name, real))


_install_fallbacks()


# --------------------------------------------------------------------------------------
# SymInt  (small symbolic integers: thread ids, positions, kinds)
# --------------------------------------------------------------------------------------

class SymInt(int):
    WIDTH = 16

    def __new__(cls, t):
        self = int.__new__(cls, -7777)
        self.t = t
        return self

    @staticmethod
    def var(name, lo, hi):
        return SymInt(eng().int_var(name, lo, hi, SymInt.WIDTH))

    @staticmethod
    def _z(o):
        if isinstance(o, SymInt):
            return o.t
        if isinstance(o, bool):
            return None
        if isinstance(o, int):
            if not (0 <= o < (1 << SymInt.WIDTH)):
                return None
            return z3.BitVecVal(o, SymInt.WIDTH)
        return None

    def value(self, model):
        return model.eval(self.t, model_completion=True).as_long()

    def __hash__(self):
        return 0

    def __eq__(self, o):
        if not isinstance(o, int):
            return NotImplemented
        z = SymInt._z(o)
        if z is None:
            return False
        return _mk_simpl(self.t == z)

    def __ne__(self, o):
        if not isinstance(o, int):
            return NotImplemented
        z = SymInt._z(o)
        if z is None:
            return True
        return _mk_simpl(self.t != z)

    def _cmp(self, o, fn):
        z = SymInt._z(o)
        if z is None:
            raise Unsupported("SymInt comparison with out-of-range int")
        return _mk_simpl(fn(self.t, z))

    def __lt__(self, o):
        return self._cmp(o, z3.ULT)

    def __le__(self, o):
        return self._cmp(o, z3.ULE)

    def __gt__(self, o):
        return self._cmp(o, z3.UGT)

    def __ge__(self, o):
        return self._cmp(o, z3.UGE)

    def __bool__(self):
        return eng().decide(self.t != 0)

    def __index__(self):
        raise Unsupported("SymInt used as index")

    def __int__(self):
        return self

    def __repr__(self):
        return "SymInt(%s)" % self.t

    def __str__(self):
        raise Unsupported("str(SymInt)")

    def __format__(self, spec):
        raise Unsupported("format(SymInt)")

    def concretize(self, lo, hi):
        """fork on the value"""
        for k in range(lo, hi + 1):
            if eng().decide(self.t == k):
                return k
        raise Abort()


def _mk_simpl(e):
    e = z3.simplify(e)
    if z3.is_true(e):
        return True
    if z3.is_false(e):
        return False
    return SymBool(e)


def _symint_arith_unsupported(name):
    def m(self, *a):
        raise Unsupported("SymInt.%s" % name)
    return m


for _n in ("__add__", "__radd__", "__sub__", "__rsub__", "__mul__", "__rmul__", "__floordiv__", "__mod__",
           "__truediv__", "__neg__", "__and__", "__or__", "__xor__", "__lshift__", "__rshift__", "__pow__",
           "__abs__", "__float__", "__divmod__", "__rfloordiv__", "__rmod__"):
    setattr(SymInt, _n, _symint_arith_unsupported(_n))


# --------------------------------------------------------------------------------------
# helpers the AST rewrite targets (see hook.py)
# --------------------------------------------------------------------------------------

class SymHash(int):
    """result of hash(<str>) under lifting: value 0, remembers the text it was taken of"""

    def __new__(cls, origin):
        self = int.__new__(cls, 0)
        self.origin = origin
        return self

    def __hash__(self):
        return 0


def lx_hash(x):
    if isinstance(x, str):
        return SymHash(SymStr.const(x))
    return type(x).__hash__(x) if type(x).__hash__ is not None else hash(x)


def _to_symstr(p, conv=None):
    if isinstance(p, SymHash):
        # hash is modelled as an injective function of the text
        return SymStr(SymStr.const("<").cs + p.origin.cs + SymStr.const(">").cs)
    if conv == "r":
        if isinstance(p, SymStr):
            if p.concrete():
                return SymStr.const(repr(p.plain()))
            return SymStr(SymStr.const("'").cs + p.cs + SymStr.const("'").cs)
        r = repr(p)
        return SymStr.const(r)
    if isinstance(p, SymStr):
        return p
    if isinstance(p, (SymInt, SymBool)):
        raise Unsupported("formatting symbolic int/bool")
    if isinstance(p, str):
        return SymStr.const(p)
    if isinstance(p, int):
        return SymStr.const(int.__repr__(p)) if not isinstance(p, bool) else SymStr.const(repr(p))
    s = str(p)
    if not isinstance(s, str):
        raise TypeError("__str__ returned non-string")
    return SymStr.const(s)


def lx_fstr(*parts):
    """f-string: parts are constants (plain str) or (value, conv) tuples"""
    out = []
    for p in parts:
        if isinstance(p, tuple):
            v, conv = p
            s = _to_symstr(v, conv)
        else:
            s = SymStr.const(p)
        out += s.cs
    return SymStr(out)


def lx_join(recv, it):
    """X.join(Y): symbolic join when X is a str, the ordinary call otherwise (e.g. os.path.join)"""
    if isinstance(recv, str):
        return SymStr.const(recv).join(it)
    return recv.join(it)


def lx_mod(fmt, args):
    """'...%s...' % args for str fmt; anything else: ordinary %"""
    if not isinstance(fmt, str):
        return fmt % args
    fs = SymStr.const(fmt)
    if not fs.concrete():
        if args == () or args == ((),):
            # "text" % () : the text itself when it holds no '%', a formatting error otherwise ('%%' is over-approximated)
            if "%" in fs:
                raise TypeError("not enough arguments for format string")
            return fs
        raise Unsupported("symbolic format string")
    f = fs.plain()
    if not isinstance(args, tuple):
        args = (args,)
    if all(_is_plainable(a) and not _contains_sym(a) for a in args):
        return SymStr.const(f % tuple(_plain(a) for a in args))
    # only %s / %r / %% supported with symbolic arguments
    out, i, k = [], 0, 0
    while i < len(f):
        c = f[i]
        if c != "%":
            out.append(Ch(ord(c)))
            i += 1
            continue
        d = f[i + 1] if i + 1 < len(f) else ""
        if d == "%":
            out.append(Ch(37))
        elif d in ("s", "r"):
            out += _to_symstr(args[k], "r" if d == "r" else None).cs
            k += 1
        else:
            raise Unsupported("format directive %%%s with symbolic argument" % d)
        i += 2
    return SymStr(out)


def _contains_sym(a):
    try:
        s = str(a) if not isinstance(a, (str, int, float, type(None))) else a
    except Unsupported:
        return True
    return isinstance(s, SymStr) and not s.concrete()


def lx_int(*a, **k):
    if a and isinstance(a[0], SymStr) and not a[0].concrete():
        raise Unsupported("int(symbolic string)")
    if a and isinstance(a[0], SymStr):
        return int(a[0].plain(), *a[1:], **k)
    if a and isinstance(a[0], SymInt):
        return a[0]
    return int(*a, **k)


def lx_in(item, container, negate=False):
    """`item in container` with hash-safe semantics for symbolic strings"""
    r = _lx_in(item, container)
    if negate:
        if isinstance(r, SymBool):
            return not bool(r)
        return not r
    return r


def _is_symkey(x):
    return isinstance(x, (SymStr, SymInt)) or (isinstance(x, tuple) and any(_is_symkey(y) for y in x))


def _lx_in(item, container):
    tc = type(container)
    if tc is str and isinstance(item, SymStr):
        return SymStr.const(container).__contains__(item)
    if tc in (set, frozenset, dict) or tc.__name__ in ("dict_keys", "KeysView"):
        if _is_symkey(item) or (isinstance(item, str) and any(_is_symkey(k) for k in container)):
            for k in container:
                if k is item or bool(k == item):
                    return True
            return False
    return item in container


def sym_value(x, model):
    """concretise any harness-level value under a model (recursively)"""
    if isinstance(x, SymStr):
        return x.value(model)
    if isinstance(x, SymInt):
        return x.value(model)
    if isinstance(x, SymBool):
        return z3.is_true(model.eval(x.e, model_completion=True))
    if isinstance(x, SymHash):
        return "<" + x.origin.value(model) + ">"
    if isinstance(x, (list, tuple)):
        return type(x)(sym_value(y, model) for y in x)
    if isinstance(x, (set, frozenset)):
        return sorted((sym_value(y, model) for y in x), key=repr)
    if isinstance(x, dict):
        return {sym_value(k, model): sym_value(v, model) for k, v in x.items()}
    return x
