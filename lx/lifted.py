"""
Lifted runner: drives the REAL sqllineage.runner.LineageRunner on a script of template statements with only
the two parser boundaries stubbed:
  * sqllineage.runner.split            -> returns the statement handles of the template script
  * SqlFluffLineageAnalyzer._list_specific_statement_segment -> returns the pre-parsed, symbolised tree
Every stub dispatches on the handles it issued; any other CONCRETE argument goes to the real function and
any other symbolic argument raises Unsupported.
"""
from __future__ import annotations

import re
import warnings

from .engine import HarnessError, SymStr, Unsupported, sym_value
from .tree import ParsedStatement, default_resolver, parse_one

_state = {"scripts": {}, "trees": {}, "installed": False, "counter": 0}


def _install():
    if _state["installed"]:
        return
    import sqllineage.runner as runner_mod
    from sqllineage.core.parser.sqlfluff import analyzer as an_mod

    cls = an_mod.SqlFluffLineageAnalyzer
    for sym in ("_list_specific_statement_segment", "analyze", "split_tsql"):
        if not hasattr(cls, sym):
            raise HarnessError("boundary symbol SqlFluffLineageAnalyzer.%s is gone" % sym)
    if not hasattr(runner_mod, "split"):
        raise HarnessError("boundary symbol sqllineage.runner.split is gone")
    real_split = runner_mod.split
    real_list = cls._list_specific_statement_segment
    cls.__lx_real_list__ = real_list

    def lx_split(sql):
        h = _state["scripts"].get(_key(sql))
        if h is not None:
            return list(h)
        if isinstance(sql, SymStr) and not sql.concrete():
            raise Unsupported("split() of symbolic text")
        return real_split(sql.plain() if isinstance(sql, SymStr) else sql)

    def lx_list(self, sql):
        t = _state["trees"].get(_key(sql))
        if t is not None:
            return list(t)
        if isinstance(sql, SymStr) and not sql.concrete():
            raise Unsupported("sqlfluff parse of symbolic text")
        return real_list(self, sql.plain() if isinstance(sql, SymStr) else sql)

    runner_mod.split = lx_split
    cls._list_specific_statement_segment = lx_list
    _state["installed"] = True


def _key(sql):
    if isinstance(sql, SymStr):
        return sql.plain() if sql.concrete() else None
    return sql if isinstance(sql, str) else None


class LiftedScript:
    """a script of template statements parsed under one dialect"""

    def __init__(self, stmts, dialect="ansi", fresh=True):
        _install()
        self.dialect = dialect
        # a statement given as None stands for text that parses without violations but yields NO statement segment
        # (a templater comment, a bare T-SQL GO, ...): its handle maps to an empty segment list
        self.empty_at = [i for i, s in enumerate(stmts) if s is None]
        stmts = [s for s in stmts if s is not None]
        self.stmts = [parse_one(s, dialect, fresh=fresh) if isinstance(s, str) else s for s in stmts]
        _state["counter"] += 1
        self.script_handle = "<lx-script-%d>" % _state["counter"]
        self.handles = []
        for i, ps in enumerate(self.stmts):
            self.handles.append("%s /*lx%d.%d*/" % (ps.sql, _state["counter"], i))
        self.slots = []
        for ps in self.stmts:
            for s in ps.slots:
                if s not in self.slots:
                    self.slots.append(s)

    def runner(self, names=None, resolve=None, provider=None, anycase_tag=None, tsql=False, **kw):
        """symbolise and return a real (unevaluated) LineageRunner"""
        from sqllineage.runner import LineageRunner

        res = resolve or default_resolver(names)
        for i, ps in enumerate(self.stmts):
            ps.symbolise(res, anycase_tag=("%s_s%d" % (anycase_tag, i)) if anycase_tag else None)
        handles = list(self.handles)
        for n, i in enumerate(self.empty_at):
            eh = "{# nothing to analyse #} /*lx-empty%d*/" % n
            handles.insert(i, eh)
            _state["trees"][eh] = []
        _state["scripts"][self.script_handle] = handles
        for h, ps in zip(self.handles, self.stmts):
            _state["trees"][h] = [ps.seg]
        if tsql:
            # T-SQL no-semicolon mode: the script itself goes to the parse entry point, which yields every statement;
            # sqlparse's split (no semicolons in such a script) would see ONE piece
            _state["trees"][self.script_handle] = [ps.seg for ps in self.stmts]
            _state["scripts"][self.script_handle] = [self.script_handle]
        else:
            _state["trees"].pop(self.script_handle, None)
        if provider is not None:
            kw["metadata_provider"] = provider
        with warnings.catch_warnings():
            warnings.simplefilter("ignore")
            return LineageRunner(self.script_handle, dialect=self.dialect, **kw)

    def render(self, concrete_names, resolve_text=None, sep=";\n"):
        return sep.join(ps.render(concrete_names, resolve_text) for ps in self.stmts)


# ---------------------------------------------------------------------------------------------
# canonical dumps
# ---------------------------------------------------------------------------------------------

_ANON = re.compile(r"subquery_(?:-?\d+|<[^>]*>)")


def norm_anon(s):
    return _ANON.sub("subquery_#", s)


class Dump:
    """public, observable result of one run (lifted: SymStr entries; real: plain str entries)"""

    FIELDS = ("sources", "targets", "intermediates", "pairs")

    def __init__(self, sources, targets, intermediates, pairs, extra=None):
        self.sources, self.targets, self.intermediates, self.pairs = sources, targets, intermediates, pairs
        self.extra = extra or {}

    def concretise(self, model):
        f = lambda xs: sorted(norm_anon(sym_value(x, model)) for x in xs)
        g = lambda xs: sorted(tuple(norm_anon(sym_value(y, model)) for y in x) for x in xs)
        return {"sources": f(self.sources), "targets": f(self.targets), "intermediates": f(self.intermediates),
                "pairs": [list(p) for p in g(self.pairs)]}

    def same(self, other, fields=FIELDS):
        """python-level equality (forks through the engine on symbolic names)"""
        for k in fields:
            a, b = getattr(self, k), getattr(other, k)
            if not set_eq(a, b):
                return False
        return True


def set_eq(a, b):
    """set equality by == only (never by hash): forks through the engine"""
    a, b = list(a), list(b)
    for x in a:
        if not any(bool(x == y) for y in b):
            return False
    for y in b:
        if not any(bool(x == y) for x in a):
            return False
    return True


def dedupe(xs):
    out = []
    for x in xs:
        if not any(bool(x == y) for y in out):
            out.append(x)
    return out


def dump_runner(lr, full_paths=False, quiet=True) -> Dump:
    """evaluate a (lifted) LineageRunner through its public accessors"""
    import contextlib

    with (warnings.catch_warnings() if quiet else contextlib.nullcontext()):
        if quiet:
            warnings.simplefilter("ignore")
        src = [str(t) for t in lr.source_tables]
        tgt = [str(t) for t in lr.target_tables]
        mid = [str(t) for t in lr.intermediate_tables]
        paths = lr.get_column_lineage()
    pairs = [(str(p[0]), str(p[-1])) for p in paths]
    extra = {}
    if full_paths:
        extra["paths"] = [tuple(str(c) for c in p) for p in paths]
    return Dump(src, tgt, mid, pairs, extra)
