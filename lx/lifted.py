"""
Lifted runner: drives the REAL sqllineage.runner.LineageRunner on a script of template statements with only
the two parser boundaries stubbed:
  * sqllineage.runner.split            -> returns the statement handles of the template script
  * SqlFluffLineageAnalyzer._list_specific_statement_segment -> returns the pre-parsed, symbolised tree
Every stub dispatches on the handles it issued; any other CONCRETE argument goes to the real function and
any other symbolic argument raises Unsupported.
"""
from __future__ import annotations

import re
import warnings

from .engine import HarnessError, SymStr, Unsupported, sym_value
from .tree import ParsedStatement, default_resolver, parse_one

_state = {"scripts": {}, "trees": {}, "roots": {}, "installed": False, "counter": 0}


def _install():
    if _state["installed"]:
        return
    import sqllineage.runner as runner_mod
    from sqllineage.core.parser.sqlfluff import analyzer as an_mod

    cls = an_mod.SqlFluffLineageAnalyzer
    for sym in ("_list_specific_statement_segment", "analyze", "split_tsql"):
        if not hasattr(cls, sym):
            raise HarnessError("boundary symbol SqlFluffLineageAnalyzer.%s is gone" % sym)
    if not hasattr(runner_mod, "split"):
        raise HarnessError("boundary symbol sqllineage.runner.split is gone")
    real_split = runner_mod.split
    real_list = cls._list_specific_statement_segment
    cls.__lx_real_list__ = real_list

    def lx_split(sql):
        h = _state["scripts"].get(_key(sql))
        if h is not None:
            return list(h)
        if isinstance(sql, SymStr) and not sql.concrete():
            raise Unsupported("split() of symbolic text")
        return real_split(sql.plain() if isinstance(sql, SymStr) else sql)

    def lx_list(self, sql):
        t = _state["trees"].get(_key(sql))
        if t is not None:
            return list(t)
        root = _state["roots"].get(_key(sql))
        if root is not None:
            # ROOT mode (T-SQL scripts without semicolons): the repository's own function walks the pre-parsed, symbolised
            # parse tree of the WHOLE script (file / batch / statement segments are the parser's); only sqlfluff's Linter as
            # seen by the analyzer module is replaced, by an object handing that tree out
            class _Parsed:
                violations = []
                tree = root

            class _Linter:
                def __init__(self, *a, **k):
                    pass

                def parse_string(self, text, *a, **k):
                    return _Parsed()
            real_linter = an_mod.Linter
            an_mod.Linter = _Linter
            try:
                return real_list(self, sql)
            finally:
                an_mod.Linter = real_linter
        if isinstance(sql, SymStr) and not sql.concrete():
            raise Unsupported("sqlfluff parse of symbolic text")
        return real_list(self, sql.plain() if isinstance(sql, SymStr) else sql)

    runner_mod.split = lx_split
    cls._list_specific_statement_segment = lx_list
    _state["installed"] = True


def _key(sql):
    if isinstance(sql, SymStr):
        return sql.plain() if sql.concrete() else None
    return sql if isinstance(sql, str) else None


class LiftedScript:
    """a script of template statements parsed under one dialect"""

    def __init__(self, stmts, dialect="ansi", fresh=True, seps=None):
        _install()
        self.dialect = dialect
        # seps: what stands between the statements of a T-SQL script written without semicolons (a line break, a GO batch
        # separator): when given, runner(tsql=True) works in ROOT mode (see lx_list)
        self.seps = list(seps) if seps is not None else None
        self._root_ps = None
        # a statement given as None stands for text that parses without violations but yields NO statement segment
        # (a templater comment, a bare T-SQL GO, ...): its handle maps to an empty segment list
        self.empty_at = [i for i, s in enumerate(stmts) if s is None]
        stmts = [s for s in stmts if s is not None]
        self.stmts = [parse_one(s, dialect, fresh=fresh) if isinstance(s, str) else s for s in stmts]
        _state["counter"] += 1
        self.script_handle = "<lx-script-%d>" % _state["counter"]
        self.handles = []
        first = {}
        for i, ps in enumerate(self.stmts):
            # statements with the same template text ARE the same text under every naming: they share a handle, so that code
            # keyed by statement text (a cache, a dict of results) meets the coincidence
            k = first.setdefault(ps.sql, i)
            self.handles.append("%s /*lx%d.%d*/" % (ps.sql, _state["counter"], k))
        self.slots = []
        for ps in self.stmts:
            for s in ps.slots:
                if s not in self.slots:
                    self.slots.append(s)

    def runner(self, names=None, resolve=None, provider=None, anycase_tag=None, tsql=False, **kw):
        """symbolise and return a real (unevaluated) LineageRunner"""
        from sqllineage.runner import LineageRunner

        res = resolve or default_resolver(names)
        for i, ps in enumerate(self.stmts):
            ps.symbolise(res, anycase_tag=("%s_s%d" % (anycase_tag, i)) if anycase_tag else None)
        handles = list(self.handles)
        for n, i in enumerate(self.empty_at):
            eh = "{# nothing to analyse #} /*lx-empty%d*/" % n
            handles.insert(i, eh)
            _state["trees"][eh] = []
        _state["scripts"][self.script_handle] = handles
        for h, ps in zip(self.handles, self.stmts):
            _state["trees"][h] = [ps.seg]
        run_handle = self.script_handle
        if tsql and self.seps is not None:
            rp = self.root_statement()
            rp.symbolise(res, anycase_tag=("%s_root" % anycase_tag) if anycase_tag else None)
            # in ROOT mode the runner is handed the template's own TEXT (plus a tag): code that looks at the script text
            # before parsing it (is there a ';' in it?) sees what a user's script would show
            run_handle = "%s /*lx-root%s*/" % (self.script_text(), self.script_handle[11:-1])
            _state["roots"][run_handle] = rp.seg
            _state["trees"].pop(run_handle, None)
            _state["scripts"][run_handle] = [run_handle]
        elif tsql:
            # T-SQL no-semicolon mode: the script itself goes to the parse entry point, which yields every statement;
            # sqlparse's split (no semicolons in such a script) would see ONE piece
            _state["trees"][self.script_handle] = [ps.seg for ps in self.stmts]
            _state["scripts"][self.script_handle] = [self.script_handle]
        else:
            _state["trees"].pop(self.script_handle, None)
        if provider is not None:
            kw["metadata_provider"] = provider
        with warnings.catch_warnings():
            warnings.simplefilter("ignore")
            return LineageRunner(run_handle, dialect=self.dialect, **kw)

    def script_text(self):
        out = self.stmts[0].sql
        for sp, ps in zip(self.seps, self.stmts[1:]):
            out += sp + ps.sql
        return out

    def root_statement(self):
        """the whole script parsed once by the real sqlfluff (the analyzer's own configuration) into its root segment"""
        if self._root_ps is None:
            from sqlfluff.core import Linter
            from sqllineage.core.parser.sqlfluff import analyzer as an_mod

            from .tree import ParsedStatement

            text = self.script_text()
            an = an_mod.SqlFluffLineageAnalyzer(".", self.dialect)
            parsed = Linter(config=an._sqlfluff_config).parse_string(text)
            bad = [str(v) for v in parsed.violations if type(v).__name__ in ("SQLLexError", "SQLParseError")]
            if bad or parsed.tree is None:
                raise HarnessError("script template does not parse under %s: %r %s" % (self.dialect, text, bad[:2]))
            self._root_ps = ParsedStatement(text, self.dialect, parsed.tree)
        return self._root_ps

    def render_script(self, concrete_names):
        out = self.stmts[0].render(concrete_names)
        for sp, ps in zip(self.seps, self.stmts[1:]):
            out += sp + ps.render(concrete_names)
        return out

    def render(self, concrete_names, resolve_text=None, sep=";\n"):
        return sep.join(ps.render(concrete_names, resolve_text) for ps in self.stmts)


# ---------------------------------------------------------------------------------------------
# canonical dumps
# ---------------------------------------------------------------------------------------------

_ANON = re.compile(r"subquery_(?:-?\d+|<[^>]*>)")


def norm_anon(s):
    return _ANON.sub("subquery_#", s)


class Dump:
    """public, observable result of one run (lifted: SymStr entries; real: plain str entries)"""

    FIELDS = ("sources", "targets", "intermediates", "pairs")

    def __init__(self, sources, targets, intermediates, pairs, extra=None):
        self.sources, self.targets, self.intermediates, self.pairs = sources, targets, intermediates, pairs
        self.extra = extra or {}

    def concretise(self, model):
        f = lambda xs: sorted(norm_anon(sym_value(x, model)) for x in xs)
        g = lambda xs: sorted(tuple(norm_anon(sym_value(y, model)) for y in x) for x in xs)
        return {"sources": f(self.sources), "targets": f(self.targets), "intermediates": f(self.intermediates),
                "pairs": [list(p) for p in g(self.pairs)]}

    def same(self, other, fields=FIELDS):
        """python-level equality (forks through the engine on symbolic names)"""
        for k in fields:
            a, b = getattr(self, k), getattr(other, k)
            if not set_eq(a, b):
                return False
        return True


def set_eq(a, b):
    """set equality by == only (never by hash): forks through the engine"""
    a, b = list(a), list(b)
    for x in a:
        if not any(bool(x == y) for y in b):
            return False
    for y in b:
        if not any(bool(x == y) for x in a):
            return False
    return True


def dedupe(xs):
    out = []
    for x in xs:
        if not any(bool(x == y) for y in out):
            out.append(x)
    return out


# sensitivity twin (lx/check.py): while "on", the FIRST observation of a path is perturbed the way a wrong implementation
# would be (one element of every non-empty field lost, or a phantom table when nothing is reported); the harness has to
# come back with "assertion violated" on such a path, otherwise its assertion is vacuous or not reached
TWIN = {"on": False, "n": 0, "armed": True}   # armed: a harness disarms it while it makes observations it discards


def twin_arm(flag=True):
    TWIN["armed"] = flag


def _perturb(d):
    if not TWIN["armed"]:
        return d
    TWIN["n"] += 1
    if TWIN["n"] > 1:
        return d
    if not (d.sources or d.targets or d.pairs):
        d.sources, d.targets = [SymStr.const("<lx-phantom>")], [SymStr.const("<lx-phantom>")]
        return d
    for k in ("sources", "targets", "pairs"):
        v = list(getattr(d, k))
        if v:
            setattr(d, k, v[1:])
    if d.extra.get("paths"):
        d.extra["paths"] = d.extra["paths"][1:]
    return d


def twin_lists(*lists, phantom="zz"):
    """class-specific observations (lists of names) perturbed under the sensitivity twin: every non-empty list loses its
    first element; when all are empty the first gets a phantom"""
    if not TWIN["on"] or not TWIN["armed"]:
        return lists
    TWIN["n"] += 1
    if TWIN["n"] > 1:
        return lists
    lists = [list(x) for x in lists]
    if not any(lists):
        lists[0] = [SymStr.const(phantom)]
    else:
        lists = [x[1:] for x in lists]
    return tuple(lists)


def twin_fault():
    """sensitivity twin of the exception monitors: an internal error where the monitored call has just returned"""
    if TWIN["on"] and TWIN["armed"] and not TWIN["n"]:
        TWIN["n"] += 1
        raise IndexError("lx sensitivity twin")


class TwinRunner:
    """sensitivity twin for checks whose assertion is an invariant over the runner's own accessors (C06, C18): the first
    export loses its first node (or gains a phantom when empty), the first column path is reversed"""

    def __init__(self, lr):
        self.__dict__["_lr"] = lr
        self.__dict__["_done"] = set()

    def __getattr__(self, k):
        return getattr(self._lr, k)

    def __str__(self):
        return str(self._lr)

    def to_cytoscape(self, *a, **kw):
        out = list(self._lr.to_cytoscape(*a, **kw))
        if "cyto" not in self._done:
            self._done.add("cyto")
            TWIN["n"] += 1
            nodes = [i for i, x in enumerate(out) if "source" not in x["data"]]
            if nodes:
                del out[nodes[0]]
            else:
                out.append({"data": {"id": SymStr.const("<lx-phantom>")}})
        return out

    def get_column_lineage(self, *a, **kw):
        out = list(self._lr.get_column_lineage(*a, **kw))
        if out and "paths" not in self._done and self._want_paths:
            self._done.add("paths")
            TWIN["n"] += 1
            out[0] = tuple(reversed(out[0]))
        return out


def twin_runner(lr, paths=True, cyto=True):
    if not TWIN["on"]:
        return lr
    TWIN["n"] = 0
    t = TwinRunner(lr)
    t.__dict__["_want_paths"] = paths
    if not cyto:
        t._done.add("cyto")
    return t


def dump_runner(lr, full_paths=False, quiet=True) -> Dump:
    """evaluate a (lifted) LineageRunner through its public accessors"""
    import contextlib

    with (warnings.catch_warnings() if quiet else contextlib.nullcontext()):
        if quiet:
            warnings.simplefilter("ignore")
        src = [str(t) for t in lr.source_tables]
        tgt = [str(t) for t in lr.target_tables]
        mid = [str(t) for t in lr.intermediate_tables]
        paths = lr.get_column_lineage()
    pairs = [(str(p[0]), str(p[-1])) for p in paths]
    extra = {}
    if full_paths:
        extra["paths"] = [tuple(str(c) for c in p) for p in paths]
    d = Dump(src, tgt, mid, pairs, extra)
    return _perturb(d) if TWIN["on"] else d
