"""
Legacy (sqlparse) analyzer leg.  sqlparse is pure Python and groups tokens eagerly at parse time, so the same trick as
for sqlfluff works: the placeholder text is parsed once by the real sqlparse, then every leaf token's value/normalized
is replaced by a SymStr (symbolic where a placeholder occurs; untouched otherwise, so keyword tables keep working) and
every token group's stored value by the concatenation of its children.  Boundaries stubbed: `sqlparse.parse` and
`trim_comment` as seen by sqllineage.core.parser.sqlparse.analyzer (return the pre-parsed, symbolised statement for a
handle), plus sqllineage.runner.split (shared with lifted.py).  `TokenList.__str__` (a C-level join) is replaced by the
symbolic join.  The regex uses on identifier text in the legacy handlers (path sniffing, keyword test) are decided by the
alphabet guard: no name over the identifier alphabet matches them, and the concrete witness replay re-checks it.
"""
from __future__ import annotations

import warnings

from .engine import HarnessError, SymStr, Unsupported, lx_join
from .lifted import _install as _install_split, _key, _state
from .tree import PLACEHOLDER, default_resolver

_L = {"installed": False, "stmts": {}, "counter": 0}


def _install():
    if _L["installed"]:
        return
    _install_split()
    import sqlparse
    import sqlparse.sql as S

    import sqllineage.core.parser.sqlparse.analyzer as an

    for sym in ("sqlparse", "trim_comment", "SqlParseLineageAnalyzer"):
        if not hasattr(an, sym):
            raise HarnessError("boundary symbol sqllineage.core.parser.sqlparse.analyzer.%s is gone" % sym)
    real_trim = an.trim_comment

    class Shim:
        def __getattr__(self, k):
            return getattr(sqlparse, k)

        @staticmethod
        def parse(sql, *a, **k):
            st = _L["stmts"].get(_key(sql))
            if st is not None:
                return [st]
            if isinstance(sql, SymStr) and not sql.concrete():
                raise Unsupported("sqlparse.parse of symbolic text")
            return sqlparse.parse(sql.plain() if isinstance(sql, SymStr) else sql, *a, **k)

    def trim(sql):
        if _key(sql) in _L["stmts"]:
            return sql
        if isinstance(sql, SymStr) and not sql.concrete():
            raise Unsupported("trim_comment of symbolic text")
        return real_trim(sql.plain() if isinstance(sql, SymStr) else sql)

    an.sqlparse = Shim()
    an.trim_comment = trim
    S.TokenList.__str__ = lambda self: lx_join("", [t.value for t in self.flatten()])
    _L["installed"] = True


class LegacyStatement:
    def __init__(self, sql):
        import sqlparse

        self.sql = sql
        ps = sqlparse.parse(sql)
        if len(ps) != 1:
            raise HarnessError("legacy template does not parse to one statement: %r" % sql)
        self.stmt = ps[0]
        self.leaves = [(t, t.value, t.normalized) for t in self.stmt.flatten()]
        self.slots = []
        for m in PLACEHOLDER.findall(sql):
            if m.lower() not in self.slots:
                self.slots.append(m.lower())

    def symbolise(self, resolve):
        occ = {}
        for t, raw, norm in self.leaves:
            parts = PLACEHOLDER.split(raw)
            if len(parts) == 1:
                t.value, t.normalized = raw, norm
                continue
            cs = []
            for i, p in enumerate(parts):
                if i % 2 == 0:
                    cs += SymStr.const(p).cs
                else:
                    slot = p.lower()
                    k = occ.get(slot, 0)
                    occ[slot] = k + 1
                    cs += SymStr.const(resolve(slot, k, t, p)).cs
            v = SymStr(cs)
            t.value = v
            t.normalized = v.upper() if t.is_keyword else v

        def rec(tok):
            if not tok.is_group:
                return SymStr.const(tok.value)
            cs = []
            for c in tok.tokens:
                cs += rec(c).cs
            v = SymStr(cs)
            tok.value = v if not v.concrete() else v.plain()
            tok.normalized = tok.value
            return v
        rec(self.stmt)

    def render(self, concrete_names):
        return PLACEHOLDER.sub(lambda m: concrete_names[m.group(1).lower()], self.sql)


class LegacyScript:
    dialect = "non-validating"

    def __init__(self, stmts):
        _install()
        self.stmts = [LegacyStatement(s) for s in stmts]
        _L["counter"] += 1
        self.script_handle = "<lx-legacy-script-%d>" % _L["counter"]
        self.handles = ["%s /*lxl%d.%d*/" % (s.sql, _L["counter"], i) for i, s in enumerate(self.stmts)]
        self.slots = []
        for s in self.stmts:
            for x in s.slots:
                if x not in self.slots:
                    self.slots.append(x)

    def runner(self, names=None, resolve=None, provider=None, **kw):
        from sqllineage.runner import LineageRunner

        res = resolve or default_resolver(names)
        for s in self.stmts:
            s.symbolise(res)
        _state["scripts"][self.script_handle] = list(self.handles)
        for h, s in zip(self.handles, self.stmts):
            _L["stmts"][h] = s.stmt
        if provider is not None:
            kw["metadata_provider"] = provider
        with warnings.catch_warnings():
            warnings.simplefilter("ignore")
            return LineageRunner(self.script_handle, dialect="non-validating", **kw)

    def render(self, concrete_names, sep=";\n"):
        return sep.join(s.render(concrete_names) for s in self.stmts)
