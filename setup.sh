#!/bin/sh
# Build the verification environment from files on disk only (offline).
# Creates /verif/.venv as an overlay on /venv (the repository's interpreter and
# dependencies) and installs the solver wheels from the offline wheelhouse.
# Idempotent; every check calls it because only committed files survive a restore.
set -e
HERE="$(cd "$(dirname "$0")" && pwd)"
VENV="$HERE/.venv"
PY="$VENV/bin/python"
WHEELS=/opt/veriftools/wheels
STAMP="$VENV/.ok"
if [ -f "$STAMP" ] && "$PY" -c "import z3, sqlfluff, networkx" >/dev/null 2>&1; then
    exit 0
fi
# serialise concurrent callers
exec 9>"$HERE/.setup.lock"
flock 9
if [ -f "$STAMP" ] && "$PY" -c "import z3, sqlfluff, networkx" >/dev/null 2>&1; then
    exit 0
fi
rm -rf "$VENV"
/venv/bin/python -m venv "$VENV"
SP="$("$PY" -c 'import sysconfig; print(sysconfig.get_paths()["purelib"])')"
# make /venv's packages (sqlfluff, sqlparse, networkx, ...) visible; /repo itself is NOT put on
# the path here: the import hook (lx/hook.py) decides where sqllineage is loaded from.
printf "import site; site.addsitedir('/venv/lib/python3.12/site-packages')\n" > "$SP/_overlay.pth"
PIP_NO_INDEX=1 "$PY" -m pip install -q --no-index --find-links "$WHEELS" z3-solver >/dev/null
# optional engines (second opinions); failure to install them is not fatal
PIP_NO_INDEX=1 "$PY" -m pip install -q --no-index --find-links "$WHEELS" cvc5 >/dev/null 2>&1 || true
PIP_NO_INDEX=1 "$PY" -m pip install -q --no-index --find-links "$WHEELS" crosshair-tool >/dev/null 2>&1 || true
"$PY" -c "import z3, sqlfluff, networkx, sqlparse"
touch "$STAMP"
